"""Record in each seeded/<id>/meta.json what we confirmed ourselves (from confirm.txt,
written by selftest/seed.sh) and which checks caught the change."""
import json, os, re, sys
here = os.path.dirname(os.path.dirname(os.path.abspath(__file__)))
root = os.path.join(here, 'seeded')
for d in sorted(os.listdir(root)):
    mp = os.path.join(root, d, 'meta.json')
    cp = os.path.join(root, d, 'confirm.txt')
    if not (os.path.exists(mp) and os.path.exists(cp)):
        continue
    meta = json.load(open(mp))
    lines = [l.rstrip('\n') for l in open(cp) if l.strip()]
    meta['confirmed_by_us'] = lines
    caught = [m.group(1) for l in lines for m in [re.match(r'check (C\d+) with patch: exit=1; [1-9]', l)] if m]
    missed = [m.group(1) for l in lines for m in [re.match(r'check (C\d+) with patch: exit=0', l)] if m]
    thorough = [m.group(1) for l in lines for m in [re.match(r'check (C\d+) --tier thorough.* with patch: exit=1; [1-9]', l)] if m]
    meta['caught_by'] = caught
    if thorough:
        meta['caught_by_thorough_only'] = [c for c in thorough if c not in caught]
    if missed:
        meta['not_caught_by'] = missed
    json.dump(meta, open(mp, 'w'), indent=1)
    print(d, 'caught_by', caught, 'missed', missed)
