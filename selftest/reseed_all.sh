#!/bin/bash
# Regression over all kept seeded changes.  Each patch is applied to a SCRATCH copy of /repo's HEAD (outside /repo and
# /verif, removed afterwards; the first confirmation of a seed is done on /repo itself by selftest/seed.sh), the checks
# recorded in meta.json (caught_by; caught_by_thorough_only with --tier thorough and the cyclic-core families only) are
# run against it and must exit 1 with a VIOLATION line.  usage: selftest/reseed_all.sh [regex]
HERE="$(cd "$(dirname "${BASH_SOURCE[0]}")/.." && pwd)"
bad=0
for d in "$HERE"/seeded/*/; do
  n=$(basename "$d"); [[ -n "$1" && ! "$n" =~ $1 ]] && continue
  checks=$(python3 -c "import json,sys; print(' '.join(json.load(open('$d/meta.json')).get('caught_by', [])))")
  tchecks=$(python3 -c "import json,sys; print(' '.join(json.load(open('$d/meta.json')).get('caught_by_thorough_only', [])))")
  [ -z "$checks$tchecks" ] && { echo "$n: no caught_by recorded"; continue; }
  S=$(mktemp -d /tmp/ovc_reseed_XXXXXX)
  git -C /repo archive HEAD | tar -x -C "$S"
  (cd "$S" && patch -p1 -s < "$d/patch.diff") || { echo "$n: patch does not apply to HEAD"; bad=1; rm -rf "$S"; continue; }
  for c in $checks; do
    OVC_REPO_ROOT="$S" OVC_OUT_DIR="$S/out" "$HERE/bin/ovc" check "$c" --tier quick > "$S/log" 2>&1; rc=$?
    v=$(grep -c '^VIOLATION' "$S/log")
    if [ $rc -eq 1 ] && [ $v -gt 0 ]; then echo "$n: $c caught ($v VIOLATION lines, $(grep '^VIOLATION' "$S/log" | grep -vc no-failing-input-found) replayed)"; else echo "$n: $c MISSED (exit=$rc)"; bad=1; fi
  done
  for c in $tchecks; do
    OVC_ONLY=cyclic OVC_REPO_ROOT="$S" OVC_OUT_DIR="$S/out" "$HERE/bin/ovc" check "$c" --tier thorough > "$S/log" 2>&1; rc=$?
    v=$(grep -c '^VIOLATION' "$S/log")
    if [ $rc -eq 1 ] && [ $v -gt 0 ]; then echo "$n: $c (thorough, cyclic-core families) caught ($v VIOLATION lines)"; else echo "$n: $c (thorough) MISSED (exit=$rc)"; bad=1; fi
  done
  rm -rf "$S"
done
exit $bad
