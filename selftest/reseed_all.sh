#!/bin/bash
# regression over all kept seeded changes: apply each to /repo, run the checks recorded in
# meta.json caught_by, expect exit 1 with a VIOLATION line, undo.  usage: selftest/reseed_all.sh [regex]
HERE="$(cd "$(dirname "${BASH_SOURCE[0]}")/.." && pwd)"
bad=0
for d in "$HERE"/seeded/*/; do
  n=$(basename "$d"); [[ -n "$1" && ! "$n" =~ $1 ]] && continue
  checks=$(python3 -c "import json,sys; print(' '.join(json.load(open('$d/meta.json')).get('caught_by', [])))")
  [ -z "$checks" ] && { echo "$n: no caught_by recorded"; continue; }
  git -C /repo apply "$d/patch.diff" || { echo "$n: patch does not apply"; bad=1; continue; }
  for c in $checks; do
    OVC_OUT_DIR=/tmp/reseed_out_$$ "$HERE/bin/ovc" check "$c" --tier quick > /tmp/reseed_check.log 2>&1; rc=$?
    v=$(grep -c '^VIOLATION' /tmp/reseed_check.log)
    if [ $rc -eq 1 ] && [ $v -gt 0 ]; then echo "$n: $c caught ($v VIOLATION lines, $(grep '^VIOLATION' /tmp/reseed_check.log | grep -vc no-failing-input-found) replayed)"; else echo "$n: $c MISSED (exit=$rc)"; bad=1; fi
  done
  git -C /repo checkout -- . ; rm -rf /tmp/reseed_out_$$
done
git -C /repo status --short | grep -v generated_foo
exit $bad
