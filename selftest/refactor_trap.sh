cd /verif
# (a) rename local qold -> prev
S=$(mktemp -d /tmp/ovc_ref_XXXX); cp -r /repo/omega $S/omega
python3 - $S/omega/symbolic/fixpoint.py <<'PY'
import sys,re
p=sys.argv[1]; s=open(p).read()
i=s.index('def trap('); j=s.index('def step(')
body=s[i:j].replace('qold','prev')
open(p,'w').write(s[:i]+body+s[j:])
PY
OVC_REPO_ROOT=$S OVC_OUT_DIR=$S/out bin/ovc check C11 2>&1 | grep -v WARNING | tail -4 | cut -c1-250; echo "exit=$?"
rm -rf $S
# (b) while True / break
S=$(mktemp -d /tmp/ovc_ref_XXXX); cp -r /repo/omega $S/omega
python3 - $S/omega/symbolic/fixpoint.py <<'PY'
import sys
p=sys.argv[1]; s=open(p).read()
old="""    qold = None
    while q != qold:
        qold = q
        pre = step(env_action, sys_action, q, aut)
        q = safe & pre
        if unless is not None:
            q |= unless
"""
new="""    while True:
        qold = q
        pre = step(env_action, sys_action, q, aut)
        q = safe & pre
        if unless is not None:
            q |= unless
        if q == qold:
            break
"""
assert old in s
open(p,'w').write(s.replace(old,new))
PY
OVC_REPO_ROOT=$S OVC_OUT_DIR=$S/out bin/ovc check C11 > $S/log 2>&1; echo "exit=$?"; grep -v WARNING $S/log | tail -4 | cut -c1-250
rm -rf $S
