"""Regenerate MANIFEST.json from the props modules present (keeps it valid at all times)."""
import importlib, json, os, sys
HERE = os.path.dirname(os.path.dirname(os.path.abspath(__file__)))
sys.path.insert(0, HERE)
sys.path.insert(0, '/repo')
ALL = [f'C{i:02d}' for i in range(1, 21)]
NA_REASON = json.load(open(os.path.join(HERE, 'selftest', 'not_applicable.json')))
checks, na = [], []
for pid in ALL:
    path = os.path.join(HERE, 'props', f'{pid}.py')
    if not os.path.exists(path):
        na.append(dict(property_id=pid, reason=NA_REASON.get(pid, 'not yet built in this framework; no check is claimed')))
        continue
    mod = importlib.import_module(f'props.{pid}')
    checks.append(dict(
        property_id=pid,
        quick_cmd=f'bin/ovc check {pid} --tier quick',
        thorough_cmd=f'bin/ovc check {pid} --tier thorough',
        evidence_file=f'evidence/{pid}.json',
        replay_cmd_template='bin/ovc replay {path}',
        engine='ovc',
        level_claimed=dict(category=mod.LEVEL, text=mod.LEVEL_TEXT, design_ref=mod.DESIGN_REF),
        level_note=mod.LEVEL_NOTE,
        technique=mod.TECHNIQUE))
m = dict(
    version=1,
    setup_cmd='bin/ovc setup',
    hooks=dict(guard='OMEGA_OVC', enable='none needed: proxies are injected from outside (Context.bdd replacement, stubs compiled into a copy of the module namespace); no source hooks in /repo',
               baseline_off_cmd='cd /repo && /venv/bin/python -m pytest -ra -q -p no:cacheprovider --timeout=900 --continue-on-collection-errors',
               source_commits=[], add_only=True),
    engines=[dict(name='ovc', path='ovc/', serves_properties=[c['property_id'] for c in checks],
                  kind_free_text='contract-based deductive verification: the real omega functions are re-extracted from source on every run, executed by CPython on a z3-backed BDD manager / symbolic integers with loops cut at invariants and callees replaced by contract stubs; generated verification conditions discharged by z3 (fallback z3 4.8 / cvc5); counter-models replayed on the unmodified code over the real dd manager')],
    checks=checks,
    notes='See DESIGN.md. Exit codes: 0 ok, 1 violation, 2 undecided, 3 checker problem.',
    not_applicable=na)
json.dump(m, open(os.path.join(HERE, 'MANIFEST.json'), 'w'), indent=1)
print('checks:', [c['property_id'] for c in checks], 'n/a:', [x['property_id'] for x in na])
