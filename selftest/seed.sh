#!/bin/bash
# usage: selftest/seed.sh <ID> <n> [check-id ...]
# Confirms a seeded change in its scratch worktree (tests pass, demo fails with / passes without),
# then applies it to /repo, runs the given checks (default: <ID>), and undoes it straight afterwards.
ID="$1"; N="$2"; shift 2; CHECKS="${@:-$ID}"
HERE="$(cd "$(dirname "${BASH_SOURCE[0]}")/.." && pwd)"
SRC="/tmp/seed_$ID/$N"; WT="/tmp/wt_$ID"
[ -d "$SRC" ] || SRC="$HERE/seeded/${ID}_$N"
OUT="$HERE/seeded/${ID}_$N"; mkdir -p "$OUT"
cp -n "$SRC/patch.diff" "$SRC/demo.py" "$SRC/meta.json" "$OUT/" 2>/dev/null
res="$OUT/confirm.txt"; : > "$res"
if [ -d "$WT" ]; then
  git -C "$WT" checkout -q -- . ; git -C "$WT" apply "$OUT/patch.diff" || { echo "patch does not apply in worktree" | tee -a "$res"; exit 9; }
  T=$(cd "$WT" && PYTHONPATH="$WT" /venv/bin/python -m pytest -q -p no:cacheprovider tests 2>&1 | tail -1); echo "tests with patch: $T" | tee -a "$res"
  (cd /tmp && PYTHONPATH="$WT" timeout 900 /venv/bin/python "$OUT/demo.py" > /tmp/demo_out.txt 2>&1); echo "demo with patch: exit=$? $(tail -1 /tmp/demo_out.txt | cut -c1-200)" | tee -a "$res"
  git -C "$WT" checkout -q -- . ; rm -f "$WT/generated_foo.py"
  (cd /tmp && PYTHONPATH="$WT" timeout 900 /venv/bin/python "$OUT/demo.py" > /tmp/demo_out.txt 2>&1); echo "demo without patch: exit=$? $(tail -1 /tmp/demo_out.txt | cut -c1-120)" | tee -a "$res"
fi
git -C /repo apply "$OUT/patch.diff" || { echo "patch does not apply to /repo" | tee -a "$res"; exit 9; }
for c in $CHECKS; do
  OVC_OUT_DIR=/tmp/seed_out_$$ "$HERE/bin/ovc" check "$c" --tier quick > /tmp/seed_check.log 2>&1; rc=$?
  echo "check $c with patch: exit=$rc; $(grep -c '^VIOLATION' /tmp/seed_check.log) VIOLATION lines ($(grep '^VIOLATION' /tmp/seed_check.log | grep -vc no-failing-input-found) with a failing input replayed on the real code)" | tee -a "$res"
  grep -A2 '^VIOLATION' /tmp/seed_check.log | grep 'obligation:' | sort | uniq -c | sort -rn | head -4 | tee -a "$res"
done
git -C /repo checkout -- . ; rm -rf /tmp/seed_out_$$
git -C /repo status --short | grep -v generated_foo
