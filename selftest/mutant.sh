#!/bin/bash
# usage: selftest/mutant.sh <ID> <file-relative-to-repo> <python-regex-or-literal old> <new> [tier]
# Copies /repo to a scratch dir outside /repo and /verif, applies ONE textual edit,
# runs the check against the copy, prints the verdict, removes the copy.
set -u
ID="$1"; FILE="$2"; OLD="$3"; NEW="$4"; TIER="${5:-quick}"
HERE="$(cd "$(dirname "${BASH_SOURCE[0]}")/.." && pwd)"
S="$(mktemp -d /tmp/ovc_mut_XXXXXX)"
mkdir -p "$S/repo" "$S/out"
cp -r /repo/omega "$S/repo/omega"
python3 - "$S/repo/$FILE" "$OLD" "$NEW" <<'PY'
import sys
p, old, new = sys.argv[1:4]
s = open(p).read()
n = s.count(old)
if n != 1:
    print(f'MUTANT-ERROR: pattern occurs {n} times in {p}'); sys.exit(9)
open(p, 'w').write(s.replace(old, new))
PY
rc=$?
if [ $rc -ne 0 ]; then rm -rf "$S"; exit 9; fi
OVC_REPO_ROOT="$S/repo" OVC_OUT_DIR="$S/out" "$HERE/bin/ovc" check "$ID" --tier "$TIER" > "$S/log" 2>&1
rc=$?
echo "mutant [$ID $FILE: '$OLD' -> '$NEW'] exit=$rc"
grep -E "^(VIOLATION|UNDECIDED|CHECKER-PROBLEM|VACUITY|KNOWN)" "$S/log" | head -5
grep -A2 -E "^VIOLATION" "$S/log" | grep -E "obligation|real code" | head -4
tail -1 "$S/log"
rm -rf "$S"
exit $rc
