#!/bin/bash
# Harmless refactorings of functions under contract: every check must exit 0 (possibly with DOWNGRADED lines), never VIOLATION.
# usage: selftest/refactor_battery.sh
cd "$(dirname "$0")/.."
run() { # name, check ids, python edit script on stdin
  name="$1"; checks="$2"
  S=$(mktemp -d /tmp/ovc_ref_XXXX); cp -r /repo/omega $S/omega
  python3 - "$S" || { echo "$name: EDIT FAILED"; rm -rf $S; return; }
  (cd $S && /venv/bin/python -c "import sys; sys.path.insert(0,'$S'); import omega.games.gr1, omega.symbolic.fixpoint, omega.symbolic.functions, omega.logic.bitvector" ) || { echo "$name: does not import"; rm -rf $S; return; }
  for c in $checks; do
    OVC_REPO_ROOT=$S OVC_OUT_DIR=$S/out bin/ovc check $c > $S/log 2>&1; rc=$?
    echo "$name: $c exit=$rc violations=$(grep -c '^VIOLATION' $S/log) downgraded=$(grep -c '^DOWNGRADED' $S/log) :: $(grep '^ovc' $S/log | tail -1 | cut -c1-150)"
    grep -E '^(VIOLATION|CHECKER|VACUITY|UNDECIDED)' -A2 $S/log | head -6 | cut -c1-220
  done
  rm -rf $S
}
edit() { cat; }

run "attractor: rename qold->last, pred->pre_q" "C11" <<'PY'
import sys,re
p=sys.argv[1]+'/omega/symbolic/fixpoint.py'; s=open(p).read()
i=s.index('def attractor('); j=s.index('def trap(')
b=s[i:j]; b=re.sub(r'\bqold\b','last',b); b=re.sub(r'\bpred\b','pre_q',b)
open(p,'w').write(s[:i]+b+s[j:])
PY
run "streett: rename zold->z_prev, yj->ylist" "C01" <<'PY'
import sys,re
p=sys.argv[1]+'/omega/games/gr1.py'; s=open(p).read()
i=s.index('def solve_streett_game('); j=s.index('def _attractor_under_assumptions(')
b=s[i:j]; b=re.sub(r'\bzold\b','z_prev',b); b=re.sub(r'\byj\b','ylist',b)
open(p,'w').write(s[:i]+b+s[j:])
PY
run "attractor_under_assumptions: new temporary inside the loop" "C01" <<'PY'
import sys
p=sys.argv[1]+'/omega/games/gr1.py'; s=open(p).read()
i=s.index('def _attractor_under_assumptions('); j=s.index('def make_streett_transducer(')
b=s[i:j]
old="            x = fx.trap(env_action, sys_action,\n"
assert old in b, b
b=b.replace("            y |= x\n","            grown = y | x\n            y = grown\n")
assert 'grown' in b
open(p,'w').write(s[:i]+b+s[j:])
PY
run "rabin: swap two independent initialisations" "C04" <<'PY'
import sys
p=sys.argv[1]+'/omega/games/gr1.py'; s=open(p).read()
old="    yki = list()\n    xkijr = list()\n"
assert old in s
open(p,'w').write(s.replace(old,"    xkijr = list()\n    yki = list()\n",1))
PY
run "extract_function: rename p->pos, n->neg" "C14" <<'PY'
import sys,re
p=sys.argv[1]+'/omega/symbolic/functions.py'; s=open(p).read()
i=s.index('def extract_function('); j=s.index('\ndef ', i+10)
b=s[i:j]; b=re.sub(r'\bp\b','pos',b); b=re.sub(r'\bn\b','neg',b)
open(p,'w').write(s[:i]+b+s[j:])
PY
run "cycle_inside: while True / break form" "C04" <<'PY'
import sys
p=sys.argv[1]+'/omega/games/gr1.py'; s=open(p).read()
old="""    y = aut.true
    yold = None
    while y != yold:
        yold = y
"""
new="""    y = aut.true
    while True:
        yold = y
"""
assert old in s
s=s.replace(old,new,1)
old2="""            xjr.append(xr)
            y &= x
    return y, xjr"""
new2="""            xjr.append(xr)
            y &= x
        if y == yold:
            break
    return y, xjr"""
assert old2 in s
open(p,'w').write(s.replace(old2,new2,1))
PY
run "make_functions: outputs computed in one expression" "C14" <<'PY'
import sys
p=sys.argv[1]+'/omega/symbolic/functions.py'; s=open(p).read()
old="    outputs = set(vrs)\n    outputs &= supp\n"
assert old in s
open(p,'w').write(s.replace(old,"    outputs = set(vrs).intersection(supp)\n",1))
PY
run "support: set comprehension instead of map" "C07 C11" <<'PY'
import sys
p=sys.argv[1]+'/omega/symbolic/fol.py'; s=open(p).read()
old="        return set(map(bit2int.__getitem__, supp))\n"
assert old in s
open(p,'w').write(s.replace(old,"        return {bit2int[bit] for bit in supp}\n",1))
PY
run "make_streett_transducer: counter name and maximum in one dict literal" "C02" <<'PY'
import sys
p=sys.argv[1]+'/omega/games/gr1.py'; s=open(p).read()
old="    vrs = {c: (0, c_max)}\n    aut.declare_variables(**vrs)\n"
assert old in s
open(p,'w').write(s.replace(old,"    aut.declare_variables(**{c: (0, c_max)})\n",1))
PY
run "_nodevar_dom: range from the sorted node list" "C20" <<'PY'
import sys
p=sys.argv[1]+'/omega/symbolic/logicizer.py'; s=open(p).read()
old="    return (min(g), max(g))\n"
assert old in s
open(p,'w').write(s.replace(old,"    nodes = sorted(g)\n    return (nodes[0], nodes[-1])\n",1))
PY
run "translate: testers sorted also without debug" "C15" <<'PY'
import sys
p=sys.argv[1]+'/omega/logic/past.py'; s=open(p).read()
old="        ci = (d['init'] for d in testers.values())\n        ct = (d['trans'] for d in testers.values())\n"
assert old in s
open(p,'w').write(s.replace(old,"        ci = sorted(d['init'] for d in testers.values())\n        ct = sorted(d['trans'] for d in testers.values())\n",1))
PY
run "count: care variables made a set first" "C07" <<'PY'
import sys
p=sys.argv[1]+'/omega/symbolic/fol.py'; s=open(p).read()
old="        bits = _refine_vars(care_vars, self.vars)\n"
assert old in s
open(p,'w').write(s.replace(old,"        bits = _refine_vars(set(care_vars), self.vars)\n",1))
PY
run "collect_functions: explicit loop" "C14" <<'PY'
import sys
p=sys.argv[1]+'/omega/symbolic/functions.py'; s=open(p).read()
old="    r.update(\n        (var, d['function'])\n        for var, d in functions.items())\n"
assert old in s
open(p,'w').write(s.replace(old,"    for var, d in functions.items():\n        r[var] = d['function']\n",1))
PY
