#!/bin/bash
# Quick tier of all 20 checks on /repo, rewriting evidence/<id>.json: run this before every commit
# that is meant to be the record (partial OVC_ONLY runs never write evidence).
cd "$(dirname "$0")/.."
rc_all=0
for p in C01 C02 C03 C04 C05 C06 C07 C08 C09 C10 C11 C12 C13 C14 C15 C16 C17 C18 C19 C20; do
  L=$(mktemp); bin/ovc check $p > $L 2>&1; rc=$?
  echo "$p exit=$rc viol=$(grep -c '^VIOLATION' $L) :: $(grep '^ovc' $L | cut -c1-210)"
  [ $rc != 0 ] && { rc_all=1; grep -E '^(VIOLATION|UNDECIDED|CHECKER|VACUITY)' $L | head -5 | cut -c1-250; }
  rm -f $L
done
exit $rc_all
