#!/bin/bash
# Record, for every function that is extracted with loop cuts, the names of its parameters and locals in
# order of first binding, as the sidecars know them.  Run on the UNCHANGED tree only; the result
# (contracts/locals_order.json) is committed and only READ during checks (positional alpha-renaming of
# renamed locals, ovc/cutloops.py:_alpha_rename).
cd "$(dirname "$0")/.."
R=/tmp/ovc_locals_$$; mkdir -p $R
for c in C01 C02 C03 C04 C05 C06 C07 C08 C09 C10 C11 C12 C13 C14 C15 C16 C17 C18 C19 C20; do
  OVC_RECORD_LOCALS=$R OVC_OUT_DIR=$R/out bin/ovc check $c --tier quick > /dev/null 2>&1
done
python3 - $R <<'PY'
import json, glob, sys, os
out = dict()
for f in sorted(glob.glob(os.path.join(sys.argv[1], '*.json'))):
    out.update(json.load(open(f)))
json.dump(out, open('contracts/locals_order.json', 'w'), indent=1, sort_keys=True)
print(len(out), 'functions recorded')
PY
rm -rf $R
