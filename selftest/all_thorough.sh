#!/bin/bash
# run every check's thorough tier on a private snapshot of /repo's working tree (so that seeded
# changes applied to /repo meanwhile do not interfere); print one summary line each
# usage: selftest/all_thorough.sh [check ids...]
cd "$(dirname "$0")/.."
SNAP=/tmp/thorough_repo_$$
mkdir -p $SNAP && rsync -a --exclude .git --exclude '*.pyc' /repo/ $SNAP/
export OVC_REPO_ROOT=$SNAP
LIST="${@:-C11 C03 C14 C18 C20 C15 C16 C13 C12 C19 C17 C02 C01 C04 C05 C07 C09 C10 C08 C06}"
for c in $LIST; do
  s=$(date +%s)
  bin/ovc check $c --tier thorough > /tmp/thorough_$c.log 2>&1; rc=$?
  echo "$c exit=$rc $(( $(date +%s) - s ))s :: $(grep '^ovc' /tmp/thorough_$c.log | tail -1)"
  grep -E '^(VIOLATION|UNDECIDED|CHECKER|VACUITY)' /tmp/thorough_$c.log | head -5
done
rm -rf $SNAP
