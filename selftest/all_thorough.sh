#!/bin/bash
# run every check's thorough tier, print one summary line each
cd "$(dirname "$0")/.."
for c in C11 C03 C14 C01 C04 C18 C20 C15 C13 C12 C19 C17 C07 C02 C05 C09 C10 C08 C06; do
  s=$(date +%s)
  bin/ovc check $c --tier thorough > /tmp/thorough_$c.log 2>&1; rc=$?
  echo "$c exit=$rc $(( $(date +%s) - s ))s :: $(grep '^ovc' /tmp/thorough_$c.log | tail -1)"
  grep -E '^(VIOLATION|UNDECIDED|CHECKER|VACUITY)' /tmp/thorough_$c.log | head -5
done
