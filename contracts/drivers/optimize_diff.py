"""Driver run twice in fresh interpreters, once normally and once with `-O`
(assert statements stripped): the printed results must be identical, i.e. no
behaviour of the library may hang on the side effect of an `assert`.

usage: python [-O] optimize_diff.py <repo root> <section>
Prints one JSON object {section: [results...]}.
"""
import itertools
import json
import logging
import sys

sys.path.insert(0, sys.argv[1])
logging.disable(logging.WARNING)
SECTION = sys.argv[2]


def tt(c, u, names, doms):
    out = list()
    for vals in itertools.product(*[doms[k] for k in names]):
        out.append(int(c.let(dict(zip(names, vals)), u) == c.true))
    return ''.join(map(str, out))


def sec_C07():
    import omega.symbolic.fol as fol
    r = list()
    c = fol.Context()
    c.declare(x=(0, 5), y=(-3, 2), b='bool')
    doms = dict(x=range(0, 8), y=range(-4, 4), b=[False, True])
    u = c.add_expr(r'(x + y > 2) \/ (b /\ (y = -4))')
    r.append(tt(c, u, ['x', 'y', 'b'], doms))
    for vals in (dict(x=3), dict(y=-4), dict(x=7, b=True), dict(y=2, x=0)):
        v = c.let(vals, u)
        rest = [k for k in ('x', 'y', 'b') if k not in vals]
        r.append([sorted(vals.items(), key=str).__repr__(), tt(c, v, rest, doms), sorted(c.support(v))])
    for asg in (dict(x=2), dict(y=-3, b=False), dict(x=7, y=3, b=True)):
        w = c.assign_from(asg)
        r.append([repr(sorted(asg.items())), tt(c, w, ['x', 'y', 'b'], doms)])
    got = sorted(repr(sorted(d.items())) for d in c.pick_iter(u, care_vars=['x', 'y', 'b']))
    r.append([len(got), got[:5], int(c.count(u, care_vars=['x', 'y', 'b'])), repr(sorted((c.pick(u) or {}).items()))])
    r.append(tt(c, c.exist({'y'}, u), ['x', 'b'], doms))
    r.append(tt(c, c.forall({'b'}, u), ['x', 'y'], doms))
    r.append(tt(c, c.let(dict(x='y', y='x') if False else dict(b='b'), u), ['x', 'y', 'b'], doms))
    return r


def sec_C15():
    import omega.logic.past as past
    r = list()
    for f in ['-X a', '--X a', '-[] a', '-<> (a /\\ b)', 'a S b', '(-X a) /\\ (--X b)', '-X (~ a)', '-X -X a',
              '(a S b) S (-X b)', '-X TRUE', '--X FALSE']:
        for kw in (dict(), dict(until=True), dict(debug=True)):
            try:
                dvars, t, init, trans, win = past.translate(f, **kw)
                r.append([f, repr(kw), sorted(dvars), t, init, trans, repr(win)])
            except Exception as e:
                r.append([f, repr(kw), 'ERR', type(e).__name__])
    return r


def sec_C06():
    import omega.symbolic.fol as fol
    import omega.logic.bitvector as bv
    r = list()
    c = fol.Context()
    c.declare(x=(-4, 3), y=(0, 6), b='bool')
    doms = dict(x=range(-4, 4), y=range(0, 8), b=[False, True])
    for f in ['x + y <= 3', 'x * y = 6', r'(y = 0) \/ (x / y = -1)', r'(y = 0) \/ (x % y = 1)', r'ite(b, x, y) > 2',
              r'\E y: x + y = 2', r'x \in -2..1', 'b <=> (x < y)', 'x - y # 0', 'LET a == x + 1 IN a * 2 > y']:
        r.append([f, tt(c, c.add_expr(f), ['x', 'y', 'b'], doms)])
    c.define('p == x + y > 3')
    r.append(['with_ops', tt(c, c.add_expr(r'p \/ b', with_ops=True), ['x', 'y', 'b'], doms)])
    r.append(bv.bitblast('x + 1 < y', c.vars)[:200])
    return r


def sec_C18():
    import omega.symbolic.temporal as trl
    import omega.symbolic.prime as prm
    r = list()
    aut = trl.Automaton()
    aut.declare_variables(x=(0, 2), y=(-2, 1))
    aut.declare_constants(k=(0, 1))
    u = aut.add_expr(r'(x = 1) /\ (y < k)')
    p = prm.prime(u, aut)
    r.append([sorted(aut.support(u)), sorted(aut.support(p)), prm.unprime(p, aut) == u,
              sorted(prm.flexible_support(u, aut)) if hasattr(prm, 'flexible_support') else None,
              prm.is_state_predicate(u), prm.is_state_predicate(p)])
    r.append([aut.type_hint_for(['x', 'y']), aut.type_action_for(['x'])])
    r.append([bool(aut.implies_type_hints(u)), bool(aut.implies_type_hints(aut.add_expr('x = 3')))])
    return r


def sec_C14():
    import omega.symbolic.fol as fol
    import omega.symbolic.functions as fn
    r = list()
    for rel in [r'(o0 <=> i0) /\ (o1 <=> ~ i1)', r'(o0 \/ o1) /\ (i0 => ~ o0)', r'i0 /\ (o0 <=> i1)', r'o0 ^ o1 ^ i0']:
        c = fol.Context()
        c.declare(i0='bool', i1='bool', o0='bool', o1='bool')
        f = c.add_expr(rel)
        d = fn.make_functions(f, ['o0', 'o1'], c.bdd)
        doms = dict(i0=[False, True], i1=[False, True], o0=[False, True], o1=[False, True])
        r.append([rel, {k: [tt(c, v['function'], ['i0', 'i1'], doms), tt(c, v['care_set'], ['i0', 'i1'], doms)] for k, v in sorted(d.items())}])
    return r


def sec_C01():
    import omega.games.gr1 as gr1
    import omega.symbolic.temporal as trl
    import contextlib
    import io
    r = list()
    for moore, plus_one in ((True, True), (False, False)):
        aut = trl.Automaton()
        aut.declare_variables(x='bool', y=(0, 2))
        aut.varlist.update(env=['x'], sys=['y'])
        aut.moore, aut.plus_one = moore, plus_one
        aut.action['env'] = "x' <=> ~ x"
        aut.action['sys'] = r"(y' = y) \/ (x /\ (y' = y + 1) /\ (y < 2)) \/ (y = 2 /\ y' = 0)"
        aut.win['<>[]'] = aut.bdds_from('y = 1')
        aut.win['[]<>'] = aut.bdds_from('y = 0', 'y = 2')
        doms = dict(x=[False, True], y=range(0, 4))
        with contextlib.redirect_stdout(io.StringIO()):
            z, yij, xijk = gr1.solve_streett_game(aut)
            zk, yki, xkijr = gr1.solve_rabin_game(aut)
        r.append([moore, plus_one, tt(aut, z, ['x', 'y'], doms), [len(a) for a in yij], tt(aut, zk[-1], ['x', 'y'], doms), len(zk)])
        aut.qinit = r'\A \E'
        aut.init['env'] = aut.true
        aut.init['sys'] = aut.add_expr('y = 0')
        r.append(bool(gr1.is_realizable(z, aut)))
        with contextlib.redirect_stdout(io.StringIO()):
            gr1.make_streett_transducer(z, yij, xijk, aut)
        doms2 = dict(doms, _goal=range(0, 2))
        r.append(tt(aut, aut.init['impl'], ['x', 'y', '_goal'], doms2))
        r.append(str(int(aut.count(aut.action['impl']))))
    return r


def sec_C20():
    import omega.automata as automata
    import omega.symbolic.logicizer as lg
    import omega.symbolic.temporal as trl
    r = list()
    for owner in ('sys', 'env'):
        g = automata.TransitionSystem()
        g.owner = owner
        g.vars = dict(x='bool', y=(0, 2))
        g.env_vars = {'x'}
        g.add_node(0, y=0)
        g.add_node(1)
        g.add_node(2, formula='x')
        g.add_edge(0, 1, x=True)
        g.add_edge(1, 2, formula="y' = 1")
        g.add_edge(1, 0)
        g.initial_nodes.add(0)
        aut = trl.Automaton()
        lg.graph_to_logic(g, 'k', False, receptive=(owner == 'sys'), self_loops=True, aut=aut)
        r.append([owner, str(int(aut.count(aut.action[owner]))), str(int(aut.count(aut.action['env' if owner == 'sys' else 'sys']))),
                  str(int(aut.count(aut.init[owner])))])
    return r


def sec_C12():
    import omega.games.enumeration as ge
    import omega.symbolic.temporal as trl
    r = list()
    for qinit in (r'\A \A', r'\E \E', r'\A \E', r'\E \A'):
        aut = trl.Automaton()
        aut.declare_variables(x='bool', y=(0, 2))
        aut.varlist = dict(env=['x'], sys=['y'], impl=['y'])
        aut.moore, aut.plus_one, aut.qinit = False, True, qinit
        aut.prime_varlists()
        aut.action['env'], aut.action['impl'] = "x' <=> ~ x", r"(x => (y' = 2)) /\ (~ x => (y' = y))"
        aut.action['sys'] = aut.action['impl']
        aut.init['env'], aut.init['impl'] = 'x', ('y = 0' if qinit != r'\E \E' else r'(y = 0) /\ x')
        g = ge.action_to_steps(aut, 'env', 'impl', qinit=qinit)
        r.append([qinit, sorted(repr(sorted(d.items())) for _, d in g.nodes(data=True)), g.number_of_edges(), sorted(map(repr, g.initial_nodes)).__len__()])
    return r


def sec_C08():
    import omega.symbolic.fol as fol
    r = list()
    c = fol.Context()
    c.declare(x=(0, 5), y=(-2, 1))
    for f, care in [(r'(x <= 3) /\ (y >= -1)', None), (r'(x = 1) \/ (x = 4) \/ (y = 1)', r'(x \in 0..5) /\ (y \in -2..1)'),
                    (r'x + y > 2', r'x \in 0..5')]:
        u = c.add_expr(f)
        cu = c.add_expr(care) if care else None
        for kw in (dict(), dict(show_dom=True), dict(show_limits=True)):
            try:
                r.append([f, care, repr(kw), c.to_expr(u, care=cu, **kw)])
            except Exception as e:
                r.append([f, care, repr(kw), 'ERR', type(e).__name__])
    return r


def sec_C10():
    import omega.symbolic.fol as fol
    import omega.symbolic.cover_enum as cenum
    r = list()
    for decl, f, care in [(dict(x=(0, 7)), r'x \in 2..5', None),
                          (dict(x=(0, 3), y=(0, 3)), r'(x \in 1..2) \/ (y \in 1..2)', None),
                          (dict(x=(0, 3), y=(0, 3)), r'~ ((x \in 1..2) /\ (y \in 1..2))', None),
                          (dict(x=(0, 5), y=(-2, 1)), r'(x = 1) \/ (x = 4) \/ (y = 1)', r'(x \in 0..5) /\ (y \in -2..1)'),
                          (dict(x=(0, 3), y=(0, 3), z=(0, 1)), r'(x = y) \/ (z = 1 /\ x < 2)', r'x + y < 5')]:
        c = fol.Context()
        c.declare(**decl)
        u = c.add_expr(f)
        cu = c.add_expr(care) if care else c.true
        try:
            covers = cenum.minimize(u, cu, c)
            dec = sorted(sorted(repr(sorted(d.items())) for d in c.pick_iter(cv)) for cv in covers)
            r.append([f, care, len(covers), dec])
            dn = cenum.to_expr(c, u, care=cu) if care else cenum.to_expr(c, u)
            r.append([f, care, sorted(dn)])
        except Exception as e:
            r.append([f, care, 'ERR', type(e).__name__])
    return r


def sec_C13():
    import omega.symbolic.temporal as trl
    import omega.symbolic.codegen as cg
    r = list()
    aut = trl.Automaton()
    aut.declare_variables(x=(-3, 3), y=(-4, 2), b='bool')
    u = aut.add_expr(r"(y' = x - 1) /\ (b' <=> (x > 0))")
    code = cg.dumps_bdds_as_code(u, ["y'", "b'"], aut)
    ns = dict(__name__='generated_opt')
    exec(compile(code, '<gen>', 'exec'), ns)
    for x in range(-4, 4):
        try:
            r.append([x, sorted(ns['step'](dict(x=x, y=0, b=False)).items())])
        except Exception as e:
            r.append([x, 'ERR', type(e).__name__])
    return r


def sec_C19():
    import omega.steps as steps
    import omega.symbolic.temporal as trl
    r = list()
    aut = trl.Automaton()
    aut.declare_variables(x='bool', y=(-3, -1))
    aut.varlist = dict(env=['x'], sys=['y'], impl=['y'])
    aut.prime_varlists()
    aut.init['impl'] = 'y = -3'
    aut.action['impl'] = r"(x /\ (y' = -1)) \/ (~ x /\ (y' = y))"
    st = steps.AutomatonStepper(aut)
    r.append(sorted(st.init().items()))
    for x, y in itertools.product([False, True], [-3, -2, -1]):
        r.append([x, y, sorted(st.step(dict(x=x, y=y)).items())])
    # an assembly of two components; the recorded history
    def comp(own, other, rule, init):
        a = trl.Automaton()
        a.declare_variables(**{own: (0, 3), other: (0, 3), '_m': 'bool'})
        a.varlist = dict(env=[other], sys=[own, '_m'], impl=[own, '_m'])
        a.prime_varlists()
        a.init['impl'] = init
        a.action['impl'] = rule
        return steps.AutomatonStepper(a)
    asm = steps.Assembly()
    asm.machines['up'] = comp('u', 'v', r"(u' = ite(u < 3, u + 1, 0)) /\ (_m' <=> ~ _m)", r'(u = 0) /\ ~ _m')
    asm.machines['follow'] = comp('v', 'u', r"(v' = u) /\ (_m' <=> (u = 3))", r'(v = 2) /\ _m')
    asm.init()
    for _ in range(5):
        asm.step()
    r.append([[sorted(d.items()) for d in asm.past], sorted(asm.state.items())])
    # a component without variables of its own (a monitor): enabled steps return nothing to assign
    mon = trl.Automaton()
    mon.declare_variables(x='bool', y=(0, 3))
    mon.varlist = dict(env=['x', 'y'], sys=[], impl=[])
    mon.prime_varlists()
    mon.init['impl'] = 'TRUE'
    mon.action['impl'] = r"(y < 3) \/ x"
    ms = steps.AutomatonStepper(mon)
    for x, y in itertools.product([False, True], [0, 3]):
        try:
            r.append(['monitor', x, y, sorted(ms.step({'x': x, 'y': y, "x'": x, "y'": y}).items())])
        except ValueError:
            r.append(['monitor', x, y, 'blocked'])
    r.append([steps.add_prefix(dict(a=1, _m=2), 'c') if hasattr(steps, 'add_prefix') else None,
              steps.omit_prefix(dict(a=1, c_m=2), 'c') if hasattr(steps, 'omit_prefix') else None])
    return r


def sec_C16():
    import omega.logic.lexyacc as lexyacc
    import omega.gr1 as gr1
    p = lexyacc.Parser()
    r = list()
    for s in ['a /\\ b \\/ c => d', '~ a = b + 1 * 2', 'x \' + 1 < y', '[] <> a U b', '"s" = a', 'a (* c *) & b \\* d\n | c']:
        t = p.parse(s)
        r.append([s, repr(t), t.flatten()])
    for s in [r'(x > 0) /\ [] (y = 1) /\ ([] <> p)', r'(<> [] q) \/ ([] <> p /\ [] <> r)']:
        d = gr1.split_gr1(s)
        r.append([s, {k: [t.flatten() for t in v] for k, v in sorted(d.items())}])
    return r


print(json.dumps({SECTION: globals()['sec_' + SECTION]()}, default=str))
