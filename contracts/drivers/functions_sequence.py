"""Driver run in a FRESH interpreter (C14, bounded): `make_functions` on
managers of both back ends one after the other in one process; module-level
state must not carry over from one manager type to the other.

usage: python functions_sequence.py <repo root> <seed> <n> <order: comma separated cudd|autoref>
Prints one JSON object: {"evaluations": n, "failures": [...]}.
"""
import itertools
import json
import random
import sys

sys.path.insert(0, sys.argv[1])
import omega.symbolic.functions as fn      # noqa: E402


TABLES = list()


def manager(kind):
    if kind == 'cudd':
        import dd.cudd as m
    else:
        import dd.autoref as m
    return m.BDD()


def check(bdd, kind, rnd, n_bits, n_out, fails, tag):
    bits = [f'v{i}' for i in range(n_bits)]
    bdd.declare(*bits)
    outs = rnd.sample(bits, n_out)
    ins = [b for b in bits if b not in outs]
    pts = [dict(zip(bits, v)) for v in itertools.product([False, True], repeat=n_bits)]
    rel = [p for p in pts if rnd.random() < 0.45]
    f = bdd.false
    for p in rel:
        f |= bdd.cube(p)
    try:
        d = fn.make_functions(f, outs, bdd)
    except Exception as e:
        fails.append(dict(name='make_functions returns functions on every manager type, whatever was used before in the process',
                          backend=kind, position=tag, error=repr(e)[:200],
                          relation=[{k: int(v) for k, v in p.items()} for p in rel][:16]))
        return
    # collect_functions(functions): a NEW table with exactly these outputs and their
    # functions; tables returned by earlier calls stay as they were
    table = fn.collect_functions(d)
    ok_now = set(table) == set(d) and all(table[k] is d[k]['function'] or table[k] == d[k]['function'] for k in d)
    for (old_table, old_keys, old_ids) in TABLES:
        if old_table is table or set(old_table) != old_keys or [id(old_table[k]) for k in sorted(old_keys)] != old_ids:
            fails.append(dict(name='collect_functions returns a table of its own: tables collected earlier are not changed by later calls',
                              backend=kind, position=tag))
            break
    TABLES.append((table, set(table), [id(table[k]) for k in sorted(table)]))
    if not ok_now:
        fails.append(dict(name='collect_functions(functions) maps exactly the extracted outputs to their functions',
                          backend=kind, position=tag, got=sorted(table), want=sorted(d)))
    extra = dict(zz=None)
    r2 = fn.collect_functions(d, extra)
    if r2 is not extra or set(r2) != set(d) | {'zz'}:
        fails.append(dict(name='collect_functions(functions, r) adds to the given table and returns it', backend=kind, position=tag))
    empty = dict()
    r3 = fn.collect_functions(d, empty)
    if r3 is not empty or set(empty) != set(d):
        fails.append(dict(name='collect_functions(functions, r) fills the caller\'s table r also when it is still empty, and returns it', backend=kind, position=tag,
                          table_afterwards=sorted(empty)))
    relset = {tuple(p[b] for b in bits) for p in rel}
    for iv in itertools.product([False, True], repeat=len(ins)):
        env = dict(zip(ins, iv))
        solvable = any(all(p[b] == env[b] for b in ins) for p in rel)
        if not solvable:
            continue
        val = dict(env)
        for o in outs:
            if o not in d:
                continue
            g = d[o]['function']
            r = bdd.let({k: v for k, v in env.items()}, g)
            if r != bdd.true and r != bdd.false:
                fails.append(dict(name='extracted function depends only on inputs', backend=kind, position=tag, output=o))
                return
            val[o] = (r == bdd.true)
        free = [o for o in outs if o not in val]
        ok = any(tuple({**val, **dict(zip(free, fv))}[b] for b in bits) in relset
                 for fv in itertools.product([False, True], repeat=len(free)))
        if not ok:
            fails.append(dict(name='wherever the relation has some output, substituting the functions satisfies it',
                              backend=kind, position=tag, inputs={k: int(v) for k, v in env.items()},
                              relation=[{k: int(v) for k, v in p.items()} for p in rel][:16]))
            return


def main():
    seed, n, order = int(sys.argv[2]), int(sys.argv[3]), sys.argv[4].split(',')
    rnd = random.Random(seed)
    fails = list()
    evals = 0
    for _ in range(n):
        for pos, kind in enumerate(order):
            evals += 1
            check(manager(kind), kind, rnd, rnd.choice([3, 4]), rnd.choice([1, 2]), fails, f'{pos}:{",".join(order)}')
            if len(fails) > 3:
                break
        if len(fails) > 3:
            break
    print(json.dumps(dict(evaluations=evals, failures=fails[:4])))


main()
