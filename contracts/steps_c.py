"""Sidecar contracts for `omega.steps` (C19)."""
import itertools
import copy
import random

import z3

import omega.steps as steps

from ovc import spec, denote, cutloops
from ovc import engine as eng
from ovc.engine import SymBool


LAST = dict()


class SymVal:
    """A value chosen by `pick` (opaque): one fresh Boolean per bit."""

    def __init__(self, bits):
        self.bits = bits


def _pick_stub(w, log):
    """Assumed contract of `Context.pick(u, care_vars)`: `None` iff u is
    empty; otherwise an assignment to support(u) + care_vars satisfying u."""
    aut = w.aut
    cnt = [0]

    def pick(u, care_vars=None):
        cnt[0] += 1
        empty = SymBool(w.bdd.valid(z3.Not(u.t)))
        log.append(('pick', u, care_vars))
        if empty:
            return None
        vrs = set(aut.support(u)) | set(care_vars or ())
        out = dict()
        sub = list()
        for v in sorted(vrs):
            d = aut.vars[v]
            names = [v] if d['type'] == 'bool' else list(d['bitnames'])
            fresh = [z3.Bool(f'pick{cnt[0]}!{b}') for b in names]
            out[v] = SymVal(fresh)
            sub += [(w.z(b), f) for b, f in zip(names, fresh)]
        w.assume(spec.subst(u.t, sub))
        log.append(('picked', sub))
        return out
    return pick


def h_stepper(ctx):
    """`AutomatonStepper.step` / `init` against the contracts of let/support/pick."""
    w = ctx.w
    aut = w.aut
    sh = w.shape
    impl_vars = list(sh.sys)
    aut.varlist['impl'] = list(impl_vars)
    aut.prime_varlists()
    over = w.groups(w.ACTION)
    if ctx.p.get('partial'):
        # an action that ignores the next value of one implementation variable:
        # `step` must still return a value for it
        drop = set(w.bits_of([impl_vars[-1] + "'"]))
        over = [b for b in over if b not in drop]
    A = w.pred('ImplAction', over)
    I = w.pred('ImplInit', w.STATE)
    aut.action['impl'] = A
    aut.init['impl'] = I
    den = denote.Den(aut.vars, w.z)
    names = [v for v in list(sh.env) + list(sh.sys) + list(sh.const)]
    if ctx.p.get('mealy_input'):
        names += [v + "'" for v in sh.env]
    doms = list()
    for v in names:
        base = v.rstrip("'")
        if aut.vars[v]['type'] == 'bool':
            doms.append([False, True])
        else:
            L, H = den.limits(base)
            doms.append(sorted({L, H, (L + H) // 2}))
    log = list()
    stepper = steps.AutomatonStepper(aut)
    step = ctx.fn(steps.AutomatonStepper.step)
    init = ctx.fn(steps.AutomatonStepper.init)
    aut.pick = _pick_stub(w, log)
    n = 0
    allstates = list(itertools.product(*doms))
    only = ctx.p.get('state_index')
    LAST['n_states'] = len(allstates)
    for idx, vals in enumerate(allstates):
        # one state per exploration: each call forks on `pick`'s outcome
        if only is None or idx != only:
            continue
        n += 1
        state = dict(zip(names, vals))
        sub = list()
        for v, val in state.items():
            d = aut.vars[v]
            if d['type'] == 'bool':
                sub.append((w.z(v), z3.BoolVal(val)))
            else:
                sub += [(w.z(b), z3.BoolVal(bool((val >> i) & 1)))
                        for i, b in enumerate(d['bitnames'])]
        at_state = spec.subst(w.term(A), sub)
        disabled = w.bdd.valid(z3.Not(at_state))
        try:
            r = step(stepper, dict(state))
            raised = False
        except ValueError:
            raised = True
        except (eng.EndOfPath, eng.OutOfReach, eng.Unsupported):
            raise
        if raised:
            w.oblige('AutomatonStepper.step.raises: ValueError only when the action is disabled at the state',
                     disabled)
            continue
        w.oblige('AutomatonStepper.step.post: no value is returned when the action is disabled',
                 z3.Not(disabled))
        keys_ok = set(r) >= set(impl_vars) and all(not k.endswith("'") for k in r)
        sub2 = list()
        for k, sv in r.items():
            d = aut.vars[k + "'"]
            bn = [k + "'"] if d['type'] == 'bool' else list(d['bitnames'])
            sub2 += [(w.z(b), f) for b, f in zip(bn, sv.bits)]
        w.oblige('AutomatonStepper.step.post: returns next values for all implementation variables that together with the state satisfy the action',
                 z3.And(z3.BoolVal(keys_ok), spec.subst(at_state, sub2)))
    if only is not None and only >= 0:
        w.canary('stepper canary', z3.BoolVal(n == 0))
        del aut.pick
        return
    try:
        r0 = init(stepper)
    except (AttributeError, TypeError):
        # requires: the initial condition is satisfiable; otherwise `init`
        # fails (it does not return values)
        w.oblige('AutomatonStepper.init.raises: only when the initial condition is unsatisfiable',
                 w.bdd.valid(z3.Not(w.term(I))))
        r0 = None
    if r0 is not None:
        sub3 = list()
        for k, sv in r0.items():
            d = aut.vars[k]
            bn = [k] if d['type'] == 'bool' else list(d['bitnames'])
            sub3 += [(w.z(b), f) for b, f in zip(bn, sv.bits)]
        others = [w.z(b) for b in w.groups(w.STATE)
                  if b not in {str(a) for a, _ in sub3}]
        w.oblige('AutomatonStepper.init.post: values for exactly the implementation variables, satisfying the initial condition (with some values of the others)',
                 z3.And(z3.BoolVal(set(r0) <= set(impl_vars)),
                        spec.exists(others, spec.subst(w.term(I), sub3))))
    w.canary('stepper canary', z3.BoolVal(False))
    del aut.pick


def stepper_family(sh, mealy, partial=False):
    """All states of the value grid (one exploration per state) + init."""
    from ovc import harness

    def run():
        acc = None
        params = dict(mealy_input=mealy, state_index=-1, partial=partial)
        res = harness.verify(h_stepper, sh, params)     # init only
        acc = res
        r = harness.verify(h_stepper, sh, dict(mealy_input=mealy, state_index=0, partial=partial))
        n = LAST.get('n_states', 1)
        acc['records'] += r['records']
        for i in range(1, n):
            r = harness.verify(h_stepper, sh, dict(mealy_input=mealy, state_index=i, partial=partial))
            acc['records'] += r['records']
            acc['functions'].update(r['functions'])
        return acc
    return run


# ---------------------------------------------------------------------------
# bounded: name mangling and assemblies

def mangling_check():
    def run():
        fails = list()
        n = 0
        alphabet = ['a', 'b', '_']
        keys = [''.join(p) for k in (1, 2, 3) for p in itertools.product(alphabet, repeat=k)]
        prefixes = ['a', 'b', 'ab', 'a_b']
        for prefix in prefixes:
            for ks in itertools.combinations(keys[:20], 2):
                n += 1
                d = {k: i for i, k in enumerate(ks)}
                vis, hid = steps.visible_vars(d), steps.hidden_vars(d)
                if set(vis) | set(hid) != set(d) or set(vis) & set(hid) or any(
                        k.startswith('_') for k in vis) or not all(k.startswith('_') for k in hid):
                    fails.append(dict(name='visible_vars / hidden_vars partition the state by the leading underscore', d=str(d)))
                g = steps.add_prefix(d, prefix)
                want = {(prefix + k if k.startswith('_') else k): v for k, v in d.items()}
                if g != want:
                    fails.append(dict(name='add_prefix mangles exactly the hidden names', d=str(d), got=str(g)))
                # round trip: a component gets back its own local state
                # requires: no visible name starts with the component's own mangling prefix
                if not any(k.startswith(prefix + '_') for k in vis):
                    try:
                        back = steps.omit_prefix(g, prefix)
                    except AssertionError:
                        back = None
                    if back != d and len(fails) < 6:
                        fails.append(dict(
                            name='omit_prefix(add_prefix(state)) returns the component\'s local state (visible names untouched)',
                            prefix=prefix, local=str(d), global_=str(g), back=str(back)))
        return dict(records=[], stats=dict(), functions={
            f'omega.steps.{k}': dict(source_lines=0, cut={}, stubs=[], dropped='string code: exhaustive small alphabet (bounded)')
            for k in ('add_prefix', 'omit_prefix', '_omit_prefix', 'visible_vars', 'hidden_vars')},
            bounded=dict(evaluations=n, exhaustive=True, failures=fails,
                         window='identifiers over {a,b,_} up to length 3, prefixes a, b, ab, a_b'))
    return run


class _Machine:
    """Deterministic stub machine with an explicit action (for assemblies)."""

    def __init__(self, vars_, init, nxt, outs):
        self.vars = vars_
        self._init, self._next, self.outs = init, nxt, outs
        self.seen = list()

    def init(self):
        return dict(self._init)

    def step(self, state):
        self.seen.append(dict(state))
        return self._next(state)


def assembly_check(seed, n_steps):
    def run():
        fails = list()
        n = 0
        rnd = random.Random(seed)
        for trial in range(30):
            names = rnd.sample(['car', 'c', 'ca', 'car_', 'plant', 'p'], rnd.choice([2, 3]))
            asm = steps.Assembly()
            machines = dict()
            visible_pool = ['x', 'y', 'z', 'cargo', 'car_go', 'pl']
            used = set()
            for nm in names:
                out_vis = rnd.choice([v for v in visible_pool if v not in used])
                used.add(out_vis)
                inputs = [v for v in visible_pool if v != out_vis][:2]
                vars_ = {out_vis: 1, '_mem': 1, **{v: 1 for v in inputs}}

                def nxt(state, out_vis=out_vis, inputs=inputs):
                    s = sum(int(state.get(v, 0)) for v in inputs)
                    return {out_vis: (s + state['_mem']) % 5, '_mem': (state['_mem'] + 1) % 3}
                m = _Machine(vars_, {out_vis: 0, '_mem': 0}, nxt, [out_vis, '_mem'])
                machines[nm] = m
            # requires of the assembly: visible names are not of the form <component>_...
            if any(v.startswith(nm + '_') for nm in names for m in machines.values() for v in m.vars if not v.startswith('_')):
                continue
            # requires: mangled hidden names of different components are distinct
            if len({nm + '_mem' for nm in names}) < len(names):
                continue
            asm.machines = machines
            if asm.past or asm.state is not None:
                fails.append(dict(name='a new assembly starts with an empty recorded history (independent of other assemblies in the process)',
                                  past=str(asm.past)[:200]))
                continue
            try:
                asm.init()
                for _ in range(n_steps):
                    asm.step()
            except Exception as e:
                # inputs of a machine may be missing in the first steps: that is an
                # error signalled by the machine, not by the assembly
                if isinstance(e, KeyError):
                    continue
                fails.append(dict(name='assembly of well-named components runs', names=names, error=repr(e)))
                continue
            n += 1
            if len(asm.past) != n_steps:
                fails.append(dict(name='after init and k steps exactly k earlier states are recorded',
                                  recorded=len(asm.past), steps=n_steps))
                continue
            for nm, m in machines.items():
                for loc in m.seen:
                    if not set(loc) <= set(m.vars):
                        fails.append(dict(name='a component sees only variables it declares', comp=nm, saw=str(loc)))
                    if any(k.startswith(o + '_') for o in names if o != nm for k in loc):
                        fails.append(dict(name='hidden variables of other components never leak', comp=nm, saw=str(loc)))
            # every recorded step satisfies every component's action
            states = asm.past + [asm.state]
            for a, b in zip(states, states[1:]):
                if a is None:
                    continue
                for nm, m in machines.items():
                    loc = {k: v for k, v in steps.omit_prefix(a, nm).items() if k in m.vars}
                    want = m._next(loc)
                    got = {k: b[(nm + k) if k.startswith('_') else k] for k in want}
                    if got != want and len(fails) < 5:
                        fails.append(dict(name='every recorded step of the assembly satisfies every component\'s action',
                                          comp=nm, state=str(a), next=str(b)))
        return dict(records=[], stats=dict(), functions={
            f'omega.steps.Assembly.{k}': dict(source_lines=0, cut={}, stubs=[], dropped='run natively with stub machines: bounded')
            for k in ('init', 'step', '_to_local_state', '_to_global_state', '_update_state')},
            bounded=dict(evaluations=n, failures=fails, steps=n_steps))
    return run


def misc_check():
    """Scheduler, Component, EnumStrategyStepper: direct postconditions."""
    def run():
        import networkx as nx
        fails = list()
        n = 0
        for k in range(1, 6):
            sch = steps.Scheduler(k)
            st = sch.init()
            for i in range(2 * k + 1):
                n += 1
                nx_ = sch.step(st)
                if nx_ != dict(turn=(st['turn'] + 1) % k) or not 0 <= nx_['turn'] < k:
                    fails.append(dict(name='Scheduler.step increments turn modulo n', n=k, state=str(st)))
                st = nx_
        g = nx.DiGraph()
        g.add_node(0, x=0, y=1)
        g.add_node(1, x=1, y=0)
        g.add_edge(0, 1)
        g.add_edge(1, 0)
        g.initial_nodes = {0}
        g.inputs, g.outputs = ['x'], ['y']
        es = steps.EnumStrategyStepper(g)
        n += 2
        if es.init() != dict(y=1) or es.step(dict(x=0, y=1)) != dict(y=0):
            fails.append(dict(name='EnumStrategyStepper returns the outputs of a successor node'))
        comp = steps.Component(es)
        comp.update(dict(x=0))
        n += 1
        if comp.state != dict(x=0, y=1):
            fails.append(dict(name='Component.update joins inputs with the machine\'s outputs', state=str(comp.state)))
        # a component that owns no variable (a monitor): wherever its action holds for the given
        # current and next values the step is taken (nothing to assign), elsewhere it is refused
        import itertools as _it
        import omega.symbolic.temporal as _trl
        for act, pred in ((r"(y < 3) \/ x", lambda x, y, xn, yn: y < 3 or x),
                          (r"(y' >= y) /\ (x => x')", lambda x, y, xn, yn: yn >= y and ((not x) or xn)),
                          ('TRUE', lambda *a: True)):
            mon = _trl.Automaton()
            mon.declare_variables(x='bool', y=(0, 3))
            mon.varlist = dict(env=['x', 'y'], sys=[], impl=[])
            mon.prime_varlists()
            mon.init['impl'] = 'TRUE'
            mon.action['impl'] = act
            ms = steps.AutomatonStepper(mon)
            for x, y, xn, yn in _it.product([False, True], [0, 1, 3], [False, True], [0, 2, 3]):
                n += 1
                try:
                    out = ms.step({'x': x, 'y': y, "x'": xn, "y'": yn})
                    got = 'step' if out == dict() else f'returned {out}'
                except ValueError:
                    got = 'refused'
                except Exception as e:
                    got = repr(e)[:80]
                want = 'step' if pred(x, y, xn, yn) else 'refused'
                if got != want and len(fails) < 8:
                    fails.append(dict(name='AutomatonStepper of a component without variables of its own: the step is taken exactly where the action holds',
                                      action=act, state=str(dict(x=x, y=y)), next=str({"x'": xn, "y'": yn}), got=got, expected=want))
        return dict(records=[], stats=dict(), functions={}, bounded=dict(evaluations=n, failures=fails))
    return run


def stepper_on_implementations(seed, n_games):
    """The real AutomatonStepper on synthesized Streett implementations: for
    every reachable state and next environment value, `step` returns values
    satisfying the action, or raises ValueError exactly when none exist."""
    def run():
        import contextlib
        import io
        import omega.games.gr1 as gr1
        from contracts import gr1_monitor as gm
        rnd = random.Random(seed)
        fails = list()
        n = built = 0
        for g in range(n_games):
            de, ds = rnd.choice([(dict(x='bool'), dict(y='bool')), (dict(x='bool'), dict(y=(0, 2))),
                                 (dict(x=(0, 2)), dict(y='bool')), (dict(x='bool'), dict(y=(-3, -1))),
                                 (dict(x=(-2, -1)), dict(y=(-1, 1)))])
            moore, plus_one = rnd.choice([(True, True), (True, False), (False, True), (False, False)])
            aut = gm.make_game(rnd, de, ds, moore, plus_one, r'\A \E', 1, rnd.choice([1, 2]))
            try:
                with contextlib.redirect_stdout(io.StringIO()):
                    z, yij, xijk = gr1.solve_streett_game(aut)
                    if not gr1.is_realizable(z, aut) or z == aut.false:
                        continue
                    gr1.make_streett_transducer(z, yij, xijk, aut)
            except AssertionError:
                continue
            if g % 3 == 2:
                # the specification grows by one output after a first synthesis, and the SAME
                # automaton is synthesized again: the stepper built afterwards assigns all the
                # implementation's variables, the added one included
                try:
                    with contextlib.redirect_stdout(io.StringIO()):
                        aut.declare_variables(zz='bool')
                        aut.varlist['sys'].append('zz')
                        ds = dict(ds, zz='bool')
                        z, yij, xijk = gr1.solve_streett_game(aut)
                        if not gr1.is_realizable(z, aut) or z == aut.false:
                            continue
                        gr1.make_streett_transducer(z, yij, xijk, aut)
                except (AssertionError, ValueError):
                    continue
            built += 1
            stp = steps.AutomatonStepper(aut)
            impl = aut.action['impl']
            init_impl = aut.init['impl']
            allv = list(de) + list(ds) + ['_goal']
            if g % 2:
                # the stepper keeps the implementation it was BUILT from: another
                # implementation put into the same automaton later does not change it
                aut.action['impl'] = aut.add_expr(' /\\ '.join(
                    (f"({v}' <=> ~ {v})" if aut.vars[v]['type'] == 'bool' else f"({v}' = {aut.vars[v]['dom'][0]})")
                    for v in list(ds) + ['_goal']))
                aut.init['impl'] = aut.false
            shared = dict()       # ONE dict object, updated in place between calls
            den_ = denote.Den(aut.vars, lambda b: None)

            def values(names):
                # independent of the library's own enumeration: every representable value
                doms = [[False, True] if aut.vars[v]['type'] == 'bool'
                        else list(range(den_.limits(v.rstrip("'"))[0], den_.limits(v.rstrip("'"))[1] + 1)) for v in names]
                return [dict(zip(names, vs)) for vs in itertools.product(*doms)]
            for st in values(allv)[:40]:
                for xp in values([v + "'" for v in de]):
                    n += 1
                    state = dict(st)
                    if not moore:
                        state.update(xp)
                    u = aut.let(state, impl)
                    if moore:
                        pass
                    enabled = u != aut.false
                    try:
                        if n % 2:
                            shared.clear()
                            shared.update(state)
                            r = stp.step(shared)
                        else:
                            r = stp.step(dict(state))
                        if not enabled:
                            fails.append(dict(name='stepper signals an error when the action is disabled', state=str(state)))
                            continue
                        full = dict(state)
                        full.update({k + "'": v for k, v in r.items()})
                        try:
                            ok = set(r) >= set(aut.varlist['impl']) and aut.let(full, impl) == aut.true
                        except AssertionError:
                            ok = False        # a returned value is not representable
                        if not ok and len(fails) < 5:
                            fails.append(dict(name='stepper returns next values for all implementation variables satisfying the action',
                                              state=str(state), returned=str(r)))
                    except ValueError:
                        if enabled and len(fails) < 5:
                            fails.append(dict(name='stepper returns values whenever the action is enabled', state=str(state)))
                    except Exception as e:
                        if len(fails) < 5:
                            fails.append(dict(name='stepper returns values, or signals a disabled action with ValueError (no other exception)',
                                              state=str(state), error=repr(e)[:200]))
            n += 1
            try:
                i0 = stp.init()
            except Exception as e:
                fails.append(dict(name='stepper initial values satisfy the initial condition', error=repr(e)[:200],
                                  note='init() raised although the implementation it was built from has initial states'))
                continue
            try:
                aut.let(i0, init_impl)
            except AssertionError:
                fails.append(dict(name='stepper initial values satisfy the initial condition', init=str(i0), note='a value is not representable'))
                continue
            if not set(i0) <= set(aut.varlist['impl']) or aut.exist(
                    [v for v in allv if v not in i0], aut.let(i0, init_impl)) != aut.true:
                fails.append(dict(name='stepper initial values satisfy the initial condition', init=str(i0)))
        return dict(records=[], stats=dict(), functions={}, bounded=dict(
            evaluations=n, implementations=built, failures=fails))
    return run


def symbolic_assembly_check():
    """Assemblies of REAL `AutomatonStepper`s: a hand-written component that owns
    the input and a synthesized component (Moore and Mealy) that reads it.  A
    Mealy stepper has to guess the next input; the only acceptable outcomes are
    that the assembly refuses the step, or that every recorded step satisfies
    the action of every component (evaluated as plain Python predicates)."""
    def run():
        import contextlib
        import io
        import omega.games.gr1 as gr1
        import omega.symbolic.temporal as trl
        fails = list()
        n = 0

        def make_env(kind):
            aut = trl.Automaton()
            aut.declare_variables(x='bool')
            aut.varlist = dict(env=[], sys=['x'], impl=['x'])
            aut.prime_varlists()
            aut.init['impl'] = '~ x'
            aut.action['impl'] = {'toggle': "x' <=> ~ x", 'hold': "x' <=> x", 'set': "x'"}[kind]
            return steps.AutomatonStepper(aut)

        def make_ctl(moore, act):
            aut = trl.Automaton()
            aut.declare_variables(x='bool', y='bool')
            aut.varlist.update(env=['x'], sys=['y'])
            aut.init['env'], aut.init['sys'] = 'TRUE', '~ y'
            aut.action['env'], aut.action['sys'] = 'TRUE', act
            aut.win['<>[]'] = aut.bdds_from('TRUE')
            aut.win['[]<>'] = aut.bdds_from('TRUE')
            aut.qinit = r'\E \A'
            aut.moore, aut.plus_one = moore, True
            with contextlib.redirect_stdout(io.StringIO()):
                z, yij, xijk = gr1.solve_streett_game(aut)
                gr1.make_streett_transducer(z, yij, xijk, aut)
            return steps.AutomatonStepper(aut)
        env_sem = dict(toggle=lambda s, t: t['x'] == (not s['x']), hold=lambda s, t: t['x'] == s['x'], set=lambda s, t: t['x'])
        ctl_cases = [(False, "y' <=> x'", lambda s, t: t['y'] == t['x']),
                     (False, "y' <=> ~ x'", lambda s, t: t['y'] == (not t['x'])),
                     (True, "y' <=> x", lambda s, t: t['y'] == s['x']),
                     (True, "y' <=> ~ y", lambda s, t: t['y'] == (not s['y']))]
        for ek in ('toggle', 'hold', 'set'):
            for moore, act, csem in ctl_cases:
                for order in (('env', 'ctl'), ('ctl', 'env')):
                    n += 1
                    try:
                        ms = dict(env=make_env(ek), ctl=make_ctl(moore, act))
                    except AssertionError:
                        continue
                    asm = steps.Assembly()
                    for nm in order:
                        asm.machines[nm] = ms[nm]
                    try:
                        asm.init()
                        for _ in range(6):
                            asm.step()
                    except (AssertionError, ValueError):
                        continue          # refused: acceptable
                    beh = list(asm.past) + [asm.state]
                    for i, (a, b) in enumerate(zip(beh, beh[1:])):
                        if a is None:
                            continue
                        if not env_sem[ek](a, b) or not csem(a, b):
                            if len(fails) < 6:
                                fails.append(dict(name='every recorded step of the assembly satisfies every component\'s action (symbolic steppers, Moore and Mealy)',
                                                  order=str(order), env=ek, ctl=act, moore=moore, step=i, state=str(a), next=str(b)))
                            break
        # a component that is NOT the first one refuses its step (ValueError): the
        # failed step leaves no trace in the recorded behaviour
        class _Blocked:
            def __init__(self, after):
                self.vars = dict(q=1)
                self.after = after
                self.k = 0

            def init(self):
                return dict(q=0)

            def step(self, state):
                self.k += 1
                if self.k > self.after:
                    raise ValueError('action disabled')
                return dict(q=(state['q'] + 1) % 2)
        for first in ('env', 'blk'):
            for after in (0, 2):
                n += 1
                asm = steps.Assembly()
                ms = dict(env=make_env('toggle'), blk=_Blocked(after))
                for nm in ([first] + [k for k in ms if k != first]):
                    asm.machines[nm] = ms[nm]
                try:
                    asm.init()
                    for _ in range(after):
                        asm.step()
                    before = (copy.deepcopy(asm.state), copy.deepcopy(list(asm.past)))
                    try:
                        asm.step()
                        fails.append(dict(name='a step that a component refuses is refused by the assembly', first=first, after=after))
                        continue
                    except ValueError:
                        pass
                    now = (asm.state, list(asm.past))
                    full = asm.state is not None and set(asm.state) >= {'x', 'q'}
                    if (now != before or not full) and len(fails) < 6:
                        fails.append(dict(name='a step refused by a component leaves the recorded behaviour as it was (no partial state, no extra entry)',
                                          first=first, after=after, state_before=str(before[0]), state_after=str(asm.state),
                                          recorded_before=len(before[1]), recorded_after=len(asm.past)))
                except (AssertionError, KeyError) as e:
                    fails.append(dict(name='assembly with a refusing component runs', error=repr(e)[:200]))
        return dict(records=[], stats=dict(), functions={
            'omega.steps.Assembly.step': dict(source_lines=0, cut={}, stubs=[], dropped='run natively with real steppers: bounded'),
            'omega.steps.AutomatonStepper.step': dict(source_lines=0, cut={}, stubs=[], dropped='run natively: bounded')},
            bounded=dict(evaluations=n, failures=fails))
    return run
