"""Sidecar contract for `omega.symbolic.logicizer.graph_to_logic` (C20).

The graph is concrete; every edge `formula` label is a reference `@N` to an
UNINTERPRETED predicate over primed and unprimed bits, so edge labels are
symbolic; assignment labels and node labels are concrete (the bitblaster
refuses to prime a BDD reference, and node labels get primed).
The postcondition is written from the statement of C20, node by node, and
shares nothing with the implication / disjunction structure the code builds.
"""
import itertools
import random
import warnings

import z3

import omega.automata as automata
import omega.symbolic.logicizer as lg

from ovc import denote, spec

NODEVAR = 'node'
VARS = dict(x='bool', y=(0, 2))
ENV_VARS = {'x'}


def _mk_graph(spec_):
    g = automata.TransitionSystem()
    g.owner = spec_['owner']
    if spec_.get('no_graph_vars'):
        # the graph declares no variables of its own: its formula labels refer to
        # variables that the caller's automaton declares
        g.vars = dict()
        g.env_vars = set()
    else:
        g.vars = dict(VARS)
        g.env_vars = set(ENV_VARS)
    order = list(spec_['nodes'])
    if spec_.get('order') == 'largest-first':
        # the node with the largest number is not the one added last
        order = sorted(order, reverse=True)
        order = order[:1] + sorted(order[1:])
    for u in order:
        g.add_node(u, **spec_['nodes'][u])
    for (u, v, lab) in spec_['edges']:
        g.add_edge(u, v, **lab)
    # both idioms: assign a new set, or add to the set the graph comes with
    if len(spec_['nodes']) % 2:
        g.initial_nodes = set(spec_['initial'])
    else:
        for u in spec_['initial']:
            g.initial_nodes.add(u)
    if spec_.get('consistent'):
        # every initial node is a node: nothing to remove
        g.make_consistent()
    return g


def graph_family(tier, seed):
    """Hand-made corner cases plus seeded random graphs."""
    F = 'F'      # placeholder for a symbolic edge formula
    base = [
        dict(nodes={0: {}, 1: {}}, edges=[(0, 1, {}), (1, 0, {})], initial=[0]),
        dict(nodes={0: {}, 1: {}, 2: {}},
             edges=[(0, 1, {'formula': F}), (0, 2, {"x'": True}), (1, 1, {'y': 1})],
             initial=[0, 2]),                                   # node 2 dead end
        dict(nodes={0: {'y': 0}, 1: {'y': 2, 'x': True}},
             edges=[(0, 1, {'formula': F, "y'": 2}), (0, 1, {'x': False}),
                    (1, 0, {'formula': F})], initial=[1]),      # multi-edge
        dict(nodes={1: {}, 3: {'formula': '(y < 2)'}},
             edges=[(1, 3, {}), (3, 3, {'formula': F}), (3, 1, {"y'": 0, 'x': True})],
             initial=[1]),                                      # ids with a gap
        dict(nodes={0: {'formula': 'x'}}, edges=[], initial=[0]),   # single dead end
        # node labels whose top-level operator binds weaker than the glue
        # the translation puts around them
        dict(nodes={0: {'formula': 'x => (y = 1)'}, 1: {'formula': 'x <=> (y < 2)'},
                    2: {'formula': r'x \/ (y = 2)', 'y': 2}},
             edges=[(0, 1, {}), (1, 2, {'formula': F}), (2, 0, {}), (1, 1, {})],
             initial=[0, 1]),
        dict(nodes={0: {}, 1: {}, 2: {'x': False}},
             edges=[(0, 0, {}), (0, 1, {'formula': F}), (1, 2, {'formula': F, "x'": False}),
                    (2, 0, {"y'": 1, 'y': 0})], initial=[0, 1, 2]),
    ]
    # mixed edges for the receptiveness assumption: some constrain the environment, some do not
    base.append(dict(nodes={0: {}, 1: {}, 2: {}},
                     edges=[(0, 1, {'x': True}), (0, 0, {}), (1, 0, {'x': False, "y'": 1}), (1, 1, {'x': True, 'y': 2}),
                            (2, 0, {"y'": 0}), (2, 1, {'x': True})], initial=[0]))
    base.append(dict(nodes={0: {'formula': 'x'}, 1: {'formula': '(y < 2)'}, 2: {}},
                     edges=[(0, 1, {'formula': F}), (1, 2, {}), (2, 0, {'formula': F}), (1, 1, {})],
                     initial=[0, 1], no_graph_vars=True))
    rnd = random.Random(seed + 77)
    n_rand = 6 if tier == 'quick' else 40
    for _ in range(n_rand):
        ids = rnd.choice([[0, 1], [0, 1, 2], [0, 2], [1, 2, 3], [0, 1, 2, 3]])
        if tier == 'quick' and len(ids) > 3:
            ids = ids[:3]
        nodes = dict()
        for u in ids:
            lab = dict()
            r = rnd.random()
            if r < 0.2:
                lab['y'] = rnd.choice([0, 1, 2])
            elif r < 0.35:
                lab['x'] = rnd.choice([True, False])
            elif r < 0.45:
                lab['formula'] = rnd.choice(['(y # 1)', r'x \/ (y = 0)', 'x => (y = 2)', 'x <=> (y = 0)', '~ x'])
            nodes[u] = lab
        edges = list()
        for u in ids:
            for v in ids:
                k = rnd.choice([0, 0, 1, 1, 2]) if len(edges) < 6 else 0
                for _i in range(k):
                    lab = dict()
                    r = rnd.random()
                    if r < 0.4:
                        lab['formula'] = F
                    if rnd.random() < 0.4:
                        key = rnd.choice(['x', "x'", 'y', "y'"])
                        lab[key] = (rnd.choice([True, False]) if key[0] == 'x'
                                    else rnd.choice([0, 1, 2]))
                    edges.append((u, v, lab))
        initial = [u for u in ids if rnd.random() < 0.5] or [ids[0]]
        base.append(dict(nodes=nodes, edges=edges, initial=initial))
    return base


def h_graph_to_logic(ctx):
    w = ctx.w
    aut = w.aut
    gs = dict(ctx.p['graph'])
    gs['owner'] = ctx.p['owner']
    self_loops = ctx.p['self_loops']
    ignore_initial = ctx.p['ignore_initial']
    receptive = ctx.p.get('receptive', False)
    # symbolic edge formulas: one uninterpreted predicate per labelled edge
    edges = list()
    nodesref = dict()
    for i, (u, v, lab) in enumerate(gs['edges']):
        lab = dict(lab)
        if lab.get('formula') == 'F':
            p = w.pred(f'EdgeF{i}', w.ACTION)
            lab['formula'] = str(p)
            nodesref[int(p)] = w.term(p)
        edges.append((u, v, lab))
    gs['edges'] = edges
    gs['order'] = ctx.p.get('order')
    gs['consistent'] = ctx.p.get('consistent')
    g = _mk_graph(gs)
    _convert_and_check(ctx, gs, g, edges, nodesref, allowed=None, tag='')
    if ctx.p.get('again'):
        # the graph grows (a node with the next larger power-of-two number, reached from and
        # leading back to the first node) and is converted AGAIN into the same automaton:
        # a refusal (ValueError: the node variable is declared already with another range)
        # is fine, a conversion that returns must describe the graph as it is now
        new = 4 if max(gs['nodes']) < 4 else 8
        first = min(gs['nodes'])
        gs2 = dict(gs)
        gs2['nodes'] = dict(gs['nodes'])
        gs2['nodes'][new] = {}
        edges2 = edges + [(first, new, {}), (new, first, {})]
        gs2['edges'] = edges2
        gs2['initial'] = list(gs['initial']) + [new]
        g.add_node(new)
        g.add_edge(first, new)
        g.add_edge(new, first)
        g.initial_nodes.add(new)
        _convert_and_check(ctx, gs2, g, edges2, nodesref,
                           allowed=lambda e: isinstance(e, (ValueError, AssertionError)), tag=' [second conversion into the same automaton after the graph grew]')


def _convert_and_check(ctx, gs, g, edges, nodesref, allowed, tag):
    w = ctx.w
    aut = w.aut
    self_loops = ctx.p['self_loops']
    ignore_initial = ctx.p['ignore_initial']
    receptive = ctx.p.get('receptive', False)
    f = ctx.fn(lg.graph_to_logic)
    with warnings.catch_warnings():
        warnings.simplefilter('ignore')
        if ctx.p.get('positional'):
            # documented order: (g, nodevar, ignore_initial, receptive, self_loops, aut)
            r = ctx.call(f, g, NODEVAR, ignore_initial, receptive, self_loops, aut, label='graph_to_logic', allowed=allowed)
        else:
            r = ctx.call(f, g, NODEVAR, ignore_initial, receptive=receptive,
                         self_loops=self_loops, aut=aut, label='graph_to_logic', allowed=allowed)
    den = denote.Den(aut.vars, w.z, nodes=nodesref)
    W = denote.W
    N = den.var_int(NODEVAR)
    Np = den.var_int(NODEVAR, primed=True)

    def lit(v):
        return z3.BitVecVal(v, W)

    def assign(k, v):
        primed = k.endswith("'")
        name = k[:-1] if primed else k
        if VARS[name] == 'bool':
            return w.z(k) == z3.BoolVal(bool(v))
        return den.var_int(name, primed=primed) == lit(v)

    def label(lab, primed=False):
        cs = list()
        for k, v in lab.items():
            if k == 'formula':
                t = den.formula(v)
                cs.append(spec.primed(w, t) if primed else t)
            else:
                a = assign(k, v)
                cs.append(spec.primed(w, a) if primed else a)
        return z3.And(*cs) if cs else z3.BoolVal(True)

    L_, H_ = den.limits(NODEVAR)
    w.oblige('graph_to_logic.post: every node number is a value of the node variable as declared' + tag,
             z3.BoolVal(all(L_ <= u <= H_ for u in gs['nodes'])))
    owner = gs['owner']
    other = 'env' if owner == 'sys' else 'sys'
    act = w.term(aut.action[owner])
    # data flow: the target node's label holds of the next valuation
    flow = z3.And(*[z3.Implies(Np == lit(u), label(lab, primed=True))
                    for u, lab in gs['nodes'].items()]) if gs['nodes'] else z3.BoolVal(True)
    for u in gs['nodes']:
        outs = [z3.And(Np == lit(v), label(lab)) for (a, v, lab) in edges if a == u]
        step = z3.Or(*outs) if outs else z3.BoolVal(False)
        if self_loops:
            step = z3.Or(step, Np == N)
        w.oblige(f'graph_to_logic.post: at node {u} the owner\'s action holds exactly for the labelled edges out of {u}'
                 + (' or a self-loop' if self_loops else '') + ', into a node whose label holds next'
                 + ('' if outs or self_loops else ' (dead end: no step)') + tag,
                 w.valid_goal(z3.Implies(N == lit(u), act == z3.And(step, flow))))
    if not receptive:
        w.oblige('graph_to_logic.post: the other player\'s action is unconstrained',
                 w.valid_goal(w.term(aut.action[other])))
    elif owner == 'sys':
        # receptiveness assumption ("prevent env from blocking sys"): at a node
        # with outgoing edges the environment keeps to the environment part of
        # SOME outgoing edge's label (the edge formula and the assignments to
        # environment variables); an edge without such a part leaves the
        # environment unconstrained there; dead ends are unconstrained
        def envpart(lab):
            cs = list()
            for k, v in lab.items():
                if k == 'formula':
                    cs.append(den.formula(v))
                elif k in ENV_VARS:
                    cs.append(assign(k, v))
            return z3.And(*cs) if cs else z3.BoolVal(True)
        want_env = list()
        for u in gs['nodes']:
            outs = [envpart(lab) for (a, v, lab) in edges if a == u]
            if outs:
                want_env.append(z3.Implies(N == lit(u), z3.Or(*outs)))
        w.oblige('graph_to_logic.post (receptive): the environment\'s action is exactly "at each node with successors, the environment part of some outgoing edge\'s label holds"',
                 w.valid_goal(w.term(aut.action['env']) == (z3.And(*want_env) if want_env else z3.BoolVal(True))))
    w.oblige('graph_to_logic.post: the other player\'s initial condition is unconstrained',
             w.valid_goal(w.term(aut.init[other])))
    ini = w.term(aut.init[owner])
    labels_now = z3.And(*[z3.Implies(N == lit(u), label(lab))
                          for u, lab in gs['nodes'].items()])
    if ignore_initial:
        want = labels_now
    else:
        want = z3.And(z3.Or(*[N == lit(u) for u in gs['initial']]), labels_now)
    w.oblige('graph_to_logic.post: initial condition holds exactly at initial nodes whose labels are satisfied' + tag
             if not ignore_initial else
             'graph_to_logic.post: with ignore_initial only the node labels constrain the initial condition' + tag,
             w.valid_goal(ini == want))
    w.oblige('graph_to_logic.post: variable ownership: env = env_vars, sys = the rest, node variable to the owner',
             z3.BoolVal(set(aut.varlist['env']) == (set() if gs.get('no_graph_vars') else set(ENV_VARS)) | ({NODEVAR} if owner == 'env' else set())
                        and set(aut.varlist['sys']) == (set() if gs.get('no_graph_vars') else (set(VARS) - set(ENV_VARS))) | ({NODEVAR} if owner == 'sys' else set())))
    w.canary('graph_to_logic canary: at the first node the action is the complement of the specified one',
             w.valid_goal(z3.Implies(N == lit(u), act == z3.Not(z3.And(step, flow)))))


def second_conversion(backend):
    """BOUNDED: a graph is converted into a caller-supplied automaton, grows by a
    node whose number needs one more bit, and is converted AGAIN into the same
    automaton.  A refusal (ValueError / AssertionError: the node variable is
    declared already with another range) is fine; a conversion that returns must
    describe the graph as it is now: the new node is a value of the node
    variable, the owner's action allows the edges into and out of it, and the
    initial condition holds at it."""
    def run():
        import omega.symbolic.temporal as trl
        fails = list()
        n = 0
        for owner in ('sys', 'env'):
            for self_loops in (False, True):
                for n0, new in ((4, 4), (2, 2), (3, 5), (8, 9)):
                    n += 1
                    g = automata.TransitionSystem()
                    g.owner = owner
                    g.vars = dict(x='bool')
                    g.env_vars = {'x'}
                    for u in range(n0):
                        g.add_edge(u, (u + 1) % n0)
                    g.initial_nodes.add(0)
                    aut = trl.Automaton()
                    if backend == 'autoref':
                        import dd.autoref as autoref
                        aut.bdd = autoref.BDD()
                    desc = dict(owner=owner, self_loops=self_loops, nodes_first=n0, node_added=new, backend=backend)
                    try:
                        with warnings.catch_warnings():
                            warnings.simplefilter('ignore')
                            lg.graph_to_logic(g, NODEVAR, False, self_loops=self_loops, aut=aut)
                            g.add_edge(0, new)
                            g.add_edge(new, 0)
                            g.initial_nodes.add(new)
                            try:
                                lg.graph_to_logic(g, NODEVAR, False, self_loops=self_loops, aut=aut)
                            except (ValueError, AssertionError):
                                continue          # refused: fine
                    except Exception as e:
                        fails.append(dict(name='graph_to_logic into a caller-supplied automaton runs', error=repr(e)[:200], **desc))
                        continue
                    d = aut.vars[NODEVAR]
                    lim = (0, 2 ** d['width'] - 1) if not d['signed'] else (-2 ** (d['width'] - 1), 2 ** (d['width'] - 1) - 1)
                    ok = lim[0] <= new <= lim[1]
                    if ok:
                        act = aut.action[owner]
                        for a, b in ((0, new), (new, 0)):
                            v = aut.let({NODEVAR: a, NODEVAR + "'": b}, act)
                            ok = ok and v != aut.false
                        ok = ok and aut.let({NODEVAR: new}, aut.init[owner]) != aut.false
                    if not ok:
                        fails.append(dict(name='a second conversion into the same automaton that returns describes the graph as it is now (new node representable, its edges allowed, initial there)',
                                          node_variable=str({k: d[k] for k in ('dom', 'width', 'signed')}), **desc))
        return dict(records=[], stats=dict(), functions={
            'omega.symbolic.logicizer.graph_to_logic': dict(source_lines=0, cut={}, stubs=[], dropped='run natively on real dd: bounded')},
            bounded=dict(evaluations=n, failures=fails[:6], backend=backend))
    return run
