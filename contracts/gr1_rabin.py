"""Sidecar contracts for the Rabin(1) solver (C04):
`gr1._attractor_inside`, `gr1._cycle_inside`, `gr1.solve_rabin_game`,
and the CPre duality obligation on the real `fixpoint.step`.

Proved: zk[-1] == mu Z. \\/_k nu Y. /\\_j mu X. [(CPre X \\/ g_j) /\\ CPre Y /\\ (CPre Z \\/ h_k)]
for all actions / liveness predicates, iteration counts unbounded.
NOT proved: fixpoint <=> winning region (theorem T2, dual of T1), cited.
"""
import z3

import omega.games.gr1 as gr1
import omega.symbolic.fixpoint as fx

from ovc import spec, fixghost
from contracts.fixpoint import (
    set_mode, snapshot, independent_of, cpre_of, step_stub, primed_lists_ok,
    _state_pred_maker, _optional, _syntactic, is_state_pred_syntactic)
from contracts.gr1_streett import _setup_game, _explicit_game, _index_is


def layer_facts(w, cpre, tE, tS, inside_t, goal_t, xr, x_node=None, tag=''):
    r"""Facts of the LAST adjacent pair of attractor layers recorded by
    `_attractor_inside`:  x[-1] == ((CPre x[-2] \/ goal) /\ inside) \/ x[-2]
    (x[-2] := FALSE for a single layer).  Append-only list: all pairs by
    induction on the length (meta-step)."""
    ok = len(xr) >= 1
    out = [(f'{tag}layers_structure', z3.BoolVal(ok))]
    if not ok:
        return out
    prev = w.term(xr[-2]) if len(xr) >= 2 else z3.BoolVal(False)
    out.append((f'{tag}layer_is_F_of_previous', spec.equiv(
        w, w.term(xr[-1]),
        z3.Or(z3.And(z3.Or(cpre(tE, tS, prev), goal_t), inside_t), prev))))
    if x_node is not None:
        out.append((f'{tag}last_layer_is_x', spec.equiv(w, w.term(xr[-1]), w.term(x_node))))
    return out


# ---------------------------------------------------------------------------
# _attractor_inside

def h_attractor_inside(ctx):
    w = ctx.w
    aut, E, S, holds, goals = _setup_game(ctx)
    cpre = cpre_of(ctx)
    tE, tS = w.term(E), w.term(S)
    inside = w.pred('Inside', w.STATE)
    goal = w.pred('Goal', w.STATE)
    ti, tg = w.term(inside), w.term(goal)

    def F(X):
        return z3.And(z3.Or(cpre(tE, tS, X), tg), ti)

    P = w.ghost('P', w.STATE)
    hypP = spec.subset(w, F(P), P)
    w.assume(hypP)

    def _havoc_xr(w_, L):
        if L['xold'] is None:
            return
        if w_.run.decide(z3.Bool('single_layer_so_far')):
            L['xr'][:] = [L['x']]
        else:
            L['xr'][:] = [L['xold'], L['x']]

    def inv(L):
        x, xold = L['x'], L['xold']
        tx = w.term(x)
        out = [('typing', _syntactic(w, x, xold)),
               ('x_below_P', spec.subset(w, tx, P))]
        if xold is None:
            out.append(('init', z3.And(spec.equiv(w, tx, z3.BoolVal(False)),
                                       z3.BoolVal(len(L['xr']) == 0))))
        else:
            out.append(('F_xold_below_x', spec.subset(w, F(w.term(xold)), tx)))
            out += layer_facts(w, cpre, tE, tS, ti, tg, L['xr'], x)
            if len(L['xr']) >= 2:
                out.append(('layers_prev_is_xold', spec.equiv(w, w.term(L['xr'][-2]), w.term(xold))))
            elif len(L['xr']) == 1:
                out.append(('layers_first_round_started_from_FALSE',
                            spec.equiv(w, w.term(xold), z3.BoolVal(False))))
        return out

    loops = {0: dict(
        vars=dict(x=_state_pred_maker('x!h'),
                  xold=_optional('xold!h', 'xold_is_None'),
                  cox_x=_state_pred_maker('cox_x!h')),
        mutated=dict(xr=_havoc_xr),
        inv=inv)}
    before = snapshot(aut)
    f = ctx.fn(gr1._attractor_inside, loops=loops,
               module_overrides=dict(fx=dict(step=step_stub(ctx))))
    x, xr = ctx.call(f, inside, goal, aut, label='_attractor_inside')
    tx = w.term(x)
    for label, fm in layer_facts(w, cpre, tE, tS, ti, tg, xr, x):
        w.oblige(f'_attractor_inside.post: {label} (last adjacent pair of the recorded layers; all pairs by induction)', fm)
    w.oblige('_attractor_inside.post: (CPre x \\/ goal) /\\ inside <= x   (pre-fixed point)',
             spec.subset(w, F(tx), tx))
    w.oblige('_attractor_inside.post: x below every closed P   (least)',
             spec.subset(w, tx, P), hyps=[hypP])
    w.oblige('_attractor_inside.post: x is a state predicate',
             independent_of(w, tx, w.groups(("env'", "sys'"))))
    w.oblige('_attractor_inside.frame: aut unchanged',
             z3.BoolVal(snapshot(aut) == before), kind='frame')
    w.canary('_attractor_inside.canary: x == inside', spec.equiv(w, tx, ti))
    w.canary('_attractor_inside.canary: P <= x', spec.subset(w, P, tx),
             hyps=[hypP])


def ai_stub(ctx, tE, tS, log, after=None):
    w = ctx.w
    cpre = cpre_of(ctx)
    cnt = [0]

    def stub(inside, goal, aut):
        w.oblige('call _attractor_inside: requires primed variable lists consistent with env / sys lists',
                 z3.BoolVal(primed_lists_ok(aut)), kind='pre')
        w.oblige('call _attractor_inside: requires state predicates',
                 z3.BoolVal(is_state_pred_syntactic(w, inside)
                            and is_state_pred_syntactic(w, goal)), kind='pre')
        cnt[0] += 1
        x = w.pred(f'ai!{cnt[0]}', w.STATE)
        lf = fixghost.LfpInside(w, cpre, tE, tS, inside.t, goal.t, x.t, log,
                                f'ai!{cnt[0]}')
        w.assume(lf.prefixed_fact())
        if after is not None:
            after(goal, lf)
        xp = w.pred(f'ai!{cnt[0]}p', w.STATE)
        xr = [xp, x]
        for label, fm in layer_facts(w, cpre, tE, tS, inside.t, goal.t, xr, x):
            w.assume(fm)
        return x, xr
    return stub


# ---------------------------------------------------------------------------
# _cycle_inside

def h_cycle_inside(ctx):
    w = ctx.w
    aut, E, S, holds, goals = _setup_game(ctx)
    cpre = cpre_of(ctx)
    tE, tS = w.term(E), w.term(S)
    tg = [w.term(g) for g in goals]
    J = len(goals)
    zin = w.pred('Zin', w.STATE)
    hold = w.pred('Hold', w.STATE)
    g = z3.Or(cpre(tE, tS, w.term(zin)), w.term(hold))
    log = list()
    # (b) greatest: arbitrary Q with Q <= LFPI_j(CPre Q /\ g) for all j
    Q = w.ghost('Q', w.STATE)
    Lq = [fixghost.ghost_lfp_inside(
        w, cpre, tE, tS, z3.And(cpre(tE, tS, Q), g), tg[j], f'L{j}', log)
        for j in range(J)]
    hypQ = z3.And(*[spec.subset(w, Q, lf.X) for lf in Lq])
    w.assume(hypQ)
    # (a) post-fixed: arbitrary P_j
    P = [w.ghost(f'P{j}', w.STATE) for j in range(J)]

    def closed_hyp(j, ty):
        FP = z3.And(z3.Or(cpre(tE, tS, P[j]), tg[j]), cpre(tE, tS, ty), g)
        return spec.subset(w, FP, P[j])

    def _havoc_xjr(w_, L):
        if L['yold'] is not None:
            L['xjr'][:] = [[w_.pred('xp!%d' % j, w_.STATE), w_.pred('xh!%d' % j, w_.STATE)]
                           for j in range(J)]

    def xjr_facts(xjr, ty_for_inside, ty):
        out = list()
        ins = z3.And(cpre(tE, tS, ty_for_inside), g)
        for j in range(J):
            out += layer_facts(w, cpre, tE, tS, ins, tg[j], xjr[j], tag=f'goal{j}_')
            out.append((f'goal{j}_y_below_last_layer', spec.subset(w, ty, w.term(xjr[j][-1]))))
        return out

    def after_ai(goal, lf):
        j = _index_is(aut.win['[]<>'], goal)
        w.assume(Lq[j].least_at(lf.X, f'x_{j}'))
        w.assume(lf.least_at(P[j], f'P{j}'))

    def inv(L):
        y, yold = L['y'], L['yold']
        ty = w.term(y)
        out = [('typing', _syntactic(w, y, yold)),
               ('Q_below_y', spec.subset(w, Q, ty))]
        if yold is not None:
            shape_ok = len(L['xjr']) == J and all(len(x) >= 1 for x in L['xjr'])
            out.append(('xjr_shape: layers for exactly the recurrence predicates of this iteration',
                        z3.BoolVal(shape_ok)))
            if shape_ok:
                out += xjr_facts(L['xjr'], w.term(yold), ty)
            for j in range(J):
                out.append((f'y_below_LFPI{j}_of_yold', z3.Implies(
                    closed_hyp(j, w.term(yold)), spec.subset(w, ty, P[j]))))
        return out

    loops = {0: dict(
        vars=dict(y=_state_pred_maker('y!h'),
                  yold=_optional('yold!h', 'yold_is_None'),
                  cox_y=_state_pred_maker('cox_y!h'),
                  inside=_state_pred_maker('inside!h'),
                  xjr=lambda w_, L: list(), goal=lambda w_, L: None,
                  x=lambda w_, L: None, xr=lambda w_, L: None),
        mutated=dict(xjr=_havoc_xjr),
        inv=inv)}
    before = snapshot(aut)
    if w.symbolic:
        f = ctx.fn(gr1._cycle_inside, loops=loops,
                   overrides=dict(_attractor_inside=ai_stub(
                       ctx, tE, tS, log, after_ai)),
                   module_overrides=dict(fx=dict(step=step_stub(ctx))))
    else:
        f = gr1._cycle_inside
    y, xjr = ctx.call(f, zin, hold, aut, label='_cycle_inside')
    ty = w.term(y)
    w.oblige('_cycle_inside.post: returns attractor layers for exactly the recurrence predicates (those of the final iteration)',
             z3.BoolVal(len(xjr) == J and all(len(x) >= 1 for x in xjr)))
    if w.symbolic and len(xjr) == J and all(len(x) >= 1 for x in xjr):
        for label, fm in xjr_facts(xjr, ty, ty):
            w.oblige(f'_cycle_inside.post: {label} w.r.t. the returned y (inside = CPre y /\\ (CPre z \\/ hold))', fm)
    if w.symbolic:
        for j in range(J):
            w.oblige(f'_cycle_inside.post: y <= LFPI_{j}(CPre y /\\ g)   (post-fixed point)',
                     z3.Implies(closed_hyp(j, ty), spec.subset(w, ty, P[j])))
        w.oblige('_cycle_inside.post: every post-fixed Q is below y   (greatest)',
                 spec.subset(w, Q, ty), hyps=[hypQ])
        w.canary('_cycle_inside.canary: y == hold',
                 spec.equiv(w, ty, w.term(hold)))
        w.canary('_cycle_inside.canary: y <= Q', spec.subset(w, ty, Q),
                 hyps=[hypQ])
    else:
        gm = _explicit_game(ctx, E, S)
        st = w.groups(w.STATE)
        g0 = gm.cpre(w.tt(zin, st)) | w.tt(hold, st)
        gl = [w.tt(x, st) for x in goals]

        def FY(Ys):
            ins = gm.cpre(Ys) & g0
            acc = set(gm.states)
            for gg in gl:
                acc &= gm.lfp(lambda Xs, gg=gg: (gm.cpre(Xs) | gg) & ins)
            return acc
        want = gm.gfp(FY)
        got = w.tt(y, st)
        from contracts import iterates
        if len(xjr) == J:
            ins = gm.cpre(got) & g0
            for j in range(J):
                err = iterates.attractor_layers(gm, ins, gl[j], xjr[j], lambda u: w.tt(u, st))
                if err:
                    w.fail('_cycle_inside.post: xjr[j] are the attractor layers of goal j w.r.t. the returned y', f'j={j}: {err}')
        if got != want:
            w.fail('_cycle_inside.post: y == nu Y. /\\_j mu X. ...',
                   f'explicit-state value differs at {sorted(got ^ want)[:4]}')
        else:
            w.checked.append('_cycle_inside explicit-state')
    w.oblige('_cycle_inside.post: y is a state predicate',
             independent_of(w, ty, w.groups(("env'", "sys'"))))
    w.oblige('_cycle_inside.frame: aut unchanged',
             z3.BoolVal(snapshot(aut) == before), kind='frame')


def ci_stub(ctx, tE, tS, tg, log, after=None):
    w = ctx.w
    cpre = cpre_of(ctx)
    cnt = [0]

    def stub(z, hold, aut):
        w.oblige('call _cycle_inside: requires primed variable lists consistent with env / sys lists',
                 z3.BoolVal(primed_lists_ok(aut)), kind='pre')
        w.oblige('call _cycle_inside: requires state predicates',
                 z3.BoolVal(is_state_pred_syntactic(w, z)
                            and is_state_pred_syntactic(w, hold)), kind='pre')
        cnt[0] += 1
        y = w.pred(f'ci!{cnt[0]}', w.STATE)
        g = z3.Or(cpre(tE, tS, z.t), hold.t)
        cy = fixghost.CycSet(w, cpre, tE, tS, tg, g, y.t, log, f'ci!{cnt[0]}')
        if after is not None:
            after(z, hold, cy)
        ins = z3.And(cpre(tE, tS, y.t), g)
        xjr = list()
        for j in range(len(tg)):
            xp = w.pred(f'ci!{cnt[0]}p{j}', w.STATE)
            xl = w.pred(f'ci!{cnt[0]}l{j}', w.STATE)
            xjr.append([xp, xl])
            for label, fm in layer_facts(w, cpre, tE, tS, ins, tg[j], xjr[j]):
                w.assume(fm)
            w.assume(spec.subset(w, y.t, xl.t))
        return y, xjr
    return stub


# ---------------------------------------------------------------------------
# solve_rabin_game

def h_solve_rabin_game(ctx):
    w = ctx.w
    aut, E, S, holds, goals = _setup_game(ctx)
    cpre = cpre_of(ctx)
    tE, tS = w.term(E), w.term(S)
    th = [w.term(h) for h in holds]
    tg = [w.term(g) for g in goals]
    K, J = len(holds), len(goals)
    log = list()

    def g_of(k, Z):
        return z3.Or(cpre(tE, tS, Z), th[k])

    # (b) least: arbitrary P with CYC_k(P) <= P for all k
    P = w.ghost('Pz', w.STATE)
    C = [fixghost.ghost_cyc(w, cpre, tE, tS, tg, g_of(k, P), f'C{k}', log)
         for k in range(K)]
    hypP = z3.And(*[spec.subset(w, c.Y, P) for c in C])
    w.assume(hypP)
    # (a) pre-fixed: arbitrary Q_k
    Q = [w.ghost(f'Q{k}', w.STATE) for k in range(K)]
    ghostL = dict()

    def L_of(zold_t, tag):
        """ghosts L[k][j] := LFPI_j(CPre Q_k /\\ (CPre zold \\/ h_k))"""
        key = (zold_t.get_id(), tag)
        if key not in ghostL:
            ghostL[key] = [[fixghost.ghost_lfp_inside(
                w, cpre, tE, tS,
                z3.And(cpre(tE, tS, Q[k]), g_of(k, zold_t)), tg[j],
                f'Lq{k}_{j}!{tag}', log) for j in range(J)]
                for k in range(K)]
        return ghostL[key]

    def postfixed_hyp(k, Ls):
        return z3.And(*[spec.subset(w, Q[k], Ls[k][j].X) for j in range(J)])

    def after_ci(zarg, hold, cy):
        k = _index_is(aut.win['<>[]'], hold)
        # (b): y_k <= C_k by C_k.greatest at y_k with ghost lfps N_j
        N = [fixghost.ghost_lfp_inside(
            w, cpre, tE, tS,
            z3.And(cpre(tE, tS, cy.Y), g_of(k, P)), tg[j], f'N{k}_{j}', log)
            for j in range(J)]
        for j in range(J):
            w.assume(cy.postfixed_at(j, N[j].X, f'N{k}_{j}'))
        w.assume(C[k].greatest_at(cy.Y, N, f'y_{k}'))
        # (a): Q_k <= y_k when Q_k is post-fixed w.r.t. zarg
        Ls = L_of(zarg.t, 'arg')
        w.assume(cy.greatest_at(Q[k], Ls[k], f'Q{k}'))

    def _havoc_zk(w_, L):
        if L['zold'] is not None:
            L['zk'][:] = [L['z']]

    def _havoc_yki(w_, L):
        if L['zold'] is not None:
            L['yki'][:] = [[w_.pred(f'yk!{k}', w_.STATE) for k in range(K)]]

    def _havoc_xkijr(w_, L):
        if L['zold'] is not None:
            L['xkijr'][:] = [[[[w_.pred(f'xkp!{k}_{j}', w_.STATE), w_.pred(f'xkl!{k}_{j}', w_.STATE)]
                               for j in range(J)] for k in range(K)]]

    def iterate_facts(zk, yki, xkijr, tz, tzold):
        """Facts of the LAST entry of the three lists w.r.t. the previous
        outer iterate `zold` (append-only lists: every entry by induction)."""
        ok = (len(zk) == len(yki) == len(xkijr) >= 1 and len(yki[-1]) == K
              and len(xkijr[-1]) == K
              and all(len(xjr) == J and all(len(xr) >= 1 for xr in xjr)
                      for xjr in xkijr[-1]))
        out = [('iterates_structure: equally long lists, one cycle set and one family of layer lists per persistence predicate',
                z3.BoolVal(ok))]
        if not ok:
            return out
        ys = [w.term(y) for y in yki[-1]]
        out.append(('iterates_z_is_zold_or_cycle_sets', spec.equiv(
            w, tz, z3.Or(tzold, *ys))))
        for k in range(K):
            ins = z3.And(cpre(tE, tS, ys[k]), g_of(k, tzold))
            for j in range(J):
                out += layer_facts(w, cpre, tE, tS, ins, tg[j], xkijr[-1][k][j],
                                   tag=f'iterates_hold{k}_goal{j}_')
                out.append((f'iterates_hold{k}_goal{j}_y_below_last_layer',
                            spec.subset(w, ys[k], w.term(xkijr[-1][k][j][-1]))))
        return out

    def inv(L):
        z, zold = L['z'], L['zold']
        tz = w.term(z)
        out = [('typing', _syntactic(w, z, zold)),
               ('z_below_P', spec.subset(w, tz, P))]
        if zold is not None:
            out.append(('zk_last_is_z', z3.BoolVal(
                len(L['zk']) > 0 and L['zk'][-1] is z)))
            tzo = w.term(zold)
            key = (tzo.get_id(), 'arg')
            Ls = ghostL[key] if key in ghostL else L_of(tzo, 'head')
            for k in range(K):
                out.append((f'CYC{k}_of_zold_below_z', z3.Implies(
                    postfixed_hyp(k, Ls), spec.subset(w, Q[k], tz))))
            out += iterate_facts(L['zk'], L['yki'], L['xkijr'], tz, tzo)
        return out

    loops = {0: dict(
        vars=dict(z=_state_pred_maker('z!h'),
                  zold=_optional('zold!h', 'zold_is_None'),
                  xijr=lambda w_, L: list(), yi=lambda w_, L: list(),
                  hold=lambda w_, L: None, y=lambda w_, L: None,
                  xjr=lambda w_, L: None),
        mutated=dict(zk=_havoc_zk, yki=_havoc_yki, xkijr=_havoc_xkijr),
        inv=inv)}
    before = snapshot(aut)
    if w.symbolic:
        f = ctx.fn(gr1.solve_rabin_game, loops=loops,
                   overrides=dict(_cycle_inside=ci_stub(
                       ctx, tE, tS, tg, log, after_ci)))
    else:
        f = gr1.solve_rabin_game
    zk, yki, xkijr = ctx.call(f, aut, label='solve_rabin_game')
    z = zk[-1]
    tz = w.term(z)
    if w.symbolic:
        # exit: z == zold.  ghosts w.r.t. final z, congruent to those of zold
        Lf = [[fixghost.ghost_lfp_inside(
            w, cpre, tE, tS, z3.And(cpre(tE, tS, Q[k]), g_of(k, tz)), tg[j],
            f'Lq{k}_{j}!final', log) for j in range(J)] for k in range(K)]
        for key, Ls in list(ghostL.items()):
            for k in range(K):
                for j in range(J):
                    a, b = Lf[k][j], Ls[k][j]
                    log.append(f'congruence {a.name} ~ {b.name}')
                    w.assume(z3.Implies(
                        z3.And(spec.equiv(w, a.inside, b.inside),
                               spec.equiv(w, a.goal, b.goal)),
                        spec.equiv(w, a.X, b.X)))
        # at exit z == zold: the facts of the last entry hold w.r.t. zk[-1] itself
        for label, fm in iterate_facts(zk, yki, xkijr, tz, tz):
            w.oblige(f'solve_rabin_game.post: {label} (last entry, w.r.t. the previous outer iterate, which equals zk[-1] at exit; every entry t w.r.t. zk[t-1] by induction)', fm)
        for k in range(K):
            w.oblige(f'solve_rabin_game.post: CYC_{k}(z) <= z   (pre-fixed point of the outer operator)',
                     z3.Implies(postfixed_hyp(k, Lf), spec.subset(w, Q[k], tz)))
        w.oblige('solve_rabin_game.post: z below every P closed under all CYC_k   (least)',
                 spec.subset(w, tz, P), hyps=[hypP])
        w.canary('solve_rabin_game.canary: z == FALSE',
                 w.valid(z3.Not(tz)))
        w.canary('solve_rabin_game.canary: P <= z', spec.subset(w, P, tz),
                 hyps=[hypP])
    else:
        gm = _explicit_game(ctx, E, S)
        st = w.groups(w.STATE)
        want = gm.rabin([w.tt(h, st) for h in holds],
                        [w.tt(gl, st) for gl in goals])
        got = w.tt(z, st)
        from contracts import iterates
        iterates.rabin(w, gm, [w.tt(h, st) for h in holds],
                       [w.tt(gl, st) for gl in goals], zk, yki, xkijr,
                       lambda u: w.tt(u, st))
        if got != want:
            w.fail('solve_rabin_game.post: zk[-1] == mu Z. \\/_k nu Y. /\\_j mu X. ...',
                   f'explicit-state value differs at {sorted(got ^ want)[:4]} '
                   f'(|got|={len(got)}, |want|={len(want)})')
        else:
            w.checked.append('solve_rabin_game explicit-state')
        inc = all(w.tt(a, st) <= w.tt(b, st) for a, b in zip(zk, zk[1:]))
        if not inc:
            w.fail('solve_rabin_game.post: zk increasing', 'not increasing')
    w.oblige('solve_rabin_game.post: z is a state predicate',
             independent_of(w, tz, w.groups(("env'", "sys'"))))
    after = snapshot(aut)
    w.oblige('solve_rabin_game.frame: only varlist[env\'], varlist[sys\'] written',
             z3.BoolVal(after[0] == before[0] and after[2] == before[2]
                        and after[3] == before[3] and after[4] == before[4]
                        and {k: v for k, v in after[1].items()
                             if k not in ("env'", "sys'")}
                        == {k: v for k, v in before[1].items()
                            if k not in ("env'", "sys'")}), kind='frame')


# ---------------------------------------------------------------------------
# CPre duality on the real `step`

def h_cpre_duality(ctx):
    """~CPre_{A}^{(E,S)}(~Q) == CPre_{dual A}^{(S,E)}(Q) with the players'
    roles swapped, Moore <-> Mealy and strict <-> non-strict."""
    w = ctx.w
    aut = set_mode(ctx)
    E = w.pred('E', w.ACTION)
    S = w.pred('S', w.ACTION)
    Qs = w.pred('Q', w.STATE)
    step = ctx.fn(fx.step)
    r1 = ctx.call(step, E, S, ~Qs, aut, label='step')
    # the dual game: swap variable ownership and actions, flip both modes
    vl = dict(aut.varlist)
    aut.varlist['env'], aut.varlist['sys'] = vl['sys'], vl['env']
    aut.varlist["env'"], aut.varlist["sys'"] = vl["sys'"], vl["env'"]
    aut.moore = not ctx.p['moore']
    aut.plus_one = not ctx.p['plus_one']
    r2 = ctx.call(step, S, E, Qs, aut, label='step(dual)')
    w.oblige('step duality: ~CPre(~Q) == CPre of the dual game (roles swapped, Moore<->Mealy, +1<->+0)',
             spec.equiv(w, z3.Not(w.term(r1)), w.term(r2)))
    w.canary('step duality canary: CPre(~Q) == CPre_dual(Q)',
             spec.equiv(w, w.term(r1), w.term(r2)))


FUNCTIONS = dict(
    _attractor_inside=h_attractor_inside, _cycle_inside=h_cycle_inside,
    solve_rabin_game=h_solve_rabin_game, cpre_duality=h_cpre_duality)
