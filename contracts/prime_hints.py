"""Sidecar contracts for priming / renaming / support classification / type
hints (C18): `omega.symbolic.prime`, `temporal.Automaton.replace_with_*`,
`implies_type_hints`, `type_hint_for`, `type_action_for`,
`fol._refine_renaming` (through `Context.let`), `bitvector.dom_to_width`,
`bitblast_table`, `_append_sign_bit`, `var_to_twos_complement`,
`type_invariants`, `_type_hints._bitfield_limits`, `_conjoin_type_hints`.
"""
import itertools

import z3

import omega.logic.bitvector as bv
import omega.logic.syntax as stx
import omega.symbolic.prime as prm
import omega.symbolic.temporal as trl
import omega.symbolic._type_hints as tyh

from ovc import spec, denote, symint, cutloops
from ovc import circuit as cc
from ovc.engine import SymBool
from contracts.fixpoint import snapshot, independent_of


# ---------------------------------------------------------------------------
# renaming (per shape, for all predicates)

def h_prime_unprime(ctx):
    w = ctx.w
    aut = w.aut
    u = w.pred('U', w.STATE)          # over flexible and rigid bits
    tu = w.term(u)
    before = snapshot(aut)
    prime = ctx.fn(prm.prime)
    unprime = ctx.fn(prm.unprime)
    p = ctx.call(prime, u, aut, label='prime')
    tp = w.term(p)
    w.oblige('prime.post: value(prime(u), s) = value(u, s with primed copies read for the flexible variables); rigid constants untouched',
             spec.equiv(w, tp, spec.primed(w, tu)))
    w.oblige('prime.post: result does not depend on unprimed flexible bits',
             independent_of(w, tp, w.groups(('env', 'sys'))))
    q = ctx.call(unprime, p, aut, label='unprime')
    w.oblige('unprime(prime(u)) == u', spec.equiv(w, w.term(q), tu))
    a = w.pred('A', w.ACTION)
    qa = ctx.call(unprime, a, aut, label='unprime')
    w.oblige('unprime.post: primed flexible bits replaced by unprimed ones (simultaneous substitution)',
             spec.equiv(w, w.term(qa), spec.unprimed(w, w.term(a))))
    w.oblige('prime/unprime.frame: aut unchanged',
             z3.BoolVal(snapshot(aut) == before), kind='frame')
    w.canary('prime canary: prime(u) == u', spec.equiv(w, tp, tu))
    # requires: `prime` refuses predicates that already read primed bits
    if w.symbolic:
        try:
            prime(a, aut)
            ok = False
        except AssertionError:
            ok = True
        w.oblige('prime.raises: an action (primed support) is refused', z3.BoolVal(ok))


def h_prime_after_declare(ctx):
    """No stale state: variables declared AFTER a first use of prime / unprime /
    the support classifiers are primed like all others."""
    w = ctx.w
    aut = w.aut
    u = w.pred('U', w.STATE)
    prime = ctx.fn(prm.prime)
    unprime = ctx.fn(prm.unprime)
    ctx.call(prime, u, aut, label='prime')
    ctx.call(unprime, ctx.call(prime, u, aut, label='prime'), aut, label='unprime')
    for fn_ in ('vars_in_support', 'flexible_support', 'primed_support', 'rigid_support'):
        if hasattr(prm, fn_):
            try:
                getattr(prm, fn_)(u, aut)
            except Exception:
                pass
    # late declarations: a flexible integer, a flexible Boolean and a constant
    aut.declare_variables(late=(-3, 0), lb='bool')
    aut.declare_constants(lc=(0, 2))
    cases = [('late = 0', "late' = 0"), (r'lb /\ (late < -1)', r"lb' /\ (late' < -1)"),
             (r'(late = lc - 2) \/ ~ lb', r"(late' = lc - 2) \/ ~ lb'")]
    for plain, primed in cases:
        v = aut.add_expr(plain)
        want = aut.add_expr(primed)
        r = ctx.call(prime, v, aut, label='prime')
        w.oblige(f'prime.post (variables declared after an earlier call of prime): prime("{plain}") == "{primed}"',
                 w.valid_goal(w.term(r) == w.term(want)))
        q = ctx.call(unprime, want, aut, label='unprime')
        w.oblige(f'unprime.post (variables declared after an earlier call): unprime("{primed}") == "{plain}"',
                 w.valid_goal(w.term(q) == w.term(v)))
        w.canary(f'late canary: prime("{plain}") == itself', w.valid_goal(w.term(r) == w.term(v)))
    isp = ctx.fn(prm.is_state_predicate)
    w.oblige('is_state_predicate (late variables): a predicate over late primed variables is not a state predicate',
             z3.BoolVal(not isp(aut.add_expr("late' = 0")) and bool(isp(aut.add_expr('late = 0')))))


def h_replace_with(ctx):
    """`Automaton.replace_with_primed/unprimed(vrs, u)` rename only `vrs`."""
    w = ctx.w
    aut = w.aut
    flex = list(w.shape.env) + list(w.shape.sys)
    a = w.pred('A', w.ACTION)
    ta = w.term(a)
    rwp = ctx.fn(trl.Automaton.replace_with_primed)
    rwu = ctx.fn(trl.Automaton.replace_with_unprimed)
    # the identifiers as a list (documented example) and as any other iterable,
    # one-shot iterators included: the library reads `vrs` once
    forms = (list, tuple, iter, set, lambda q: (x for x in q), lambda q: dict.fromkeys(q).keys())
    n = 0

    def arg(vrs):
        nonlocal n
        n += 1
        return forms[n % len(forms)](vrs)

    def refusal_ok():
        # a loud refusal (TypeError / ValueError) of a one-shot iterable or a dict view is not
        # a wrong result; lists, tuples and sets must be accepted
        return (lambda e: isinstance(e, (TypeError, ValueError))) if n % len(forms) in (2, 4, 5) else None
    for k in range(1, len(flex) + 1):
        for vrs in itertools.combinations(flex, k):
            vrs = list(vrs)
            bits = w.bits_of(vrs)
            pbits = w.bits_of([stx.prime(v) for v in vrs])
            u = w.pred(f'U_{"_".join(vrs)}',
                       [b for b in w.groups(w.ACTION) if b not in pbits])
            tu = w.term(u)
            r = ctx.call(rwp, aut, arg(vrs), u, label='replace_with_primed', allowed=refusal_ok())
            want = spec.subst(tu, [(w.z(b), w.z(bp)) for b, bp in zip(bits, pbits)])
            w.oblige(f'replace_with_primed({vrs}).post: exactly the listed variables are renamed to their primed copies',
                     spec.equiv(w, w.term(r), want))
            v = w.pred(f'V_{"_".join(vrs)}',
                       [b for b in w.groups(w.ACTION) if b not in bits])
            r2 = ctx.call(rwu, aut, arg(vrs), v, label='replace_with_unprimed', allowed=refusal_ok())
            want2 = spec.subst(w.term(v), [(w.z(bp), w.z(b)) for b, bp in zip(bits, pbits)])
            w.oblige(f'replace_with_unprimed({vrs}).post: exactly the listed primed variables are renamed to unprimed',
                     spec.equiv(w, w.term(r2), want2))
            r3 = ctx.call(rwu, aut, arg(vrs), r, label='replace_with_unprimed', allowed=refusal_ok())
            w.oblige(f'replace_with_unprimed(replace_with_primed(u)) == u   ({vrs})',
                     spec.equiv(w, w.term(r3), tu))
    w.canary('replace_with canary', spec.equiv(w, w.term(r), tu))


def h_rename_variables(ctx):
    """`prime.rename_variables` for same-typed variable pairs of the shape."""
    w = ctx.w
    aut = w.aut
    pairs = ctx.p['pairs']         # [(old, new)]
    for old, new in pairs:
        ob, nb = w.bits_of([old]), w.bits_of([new])
        obp, nbp = w.bits_of([old + "'"]), w.bits_of([new + "'"])
        u = w.pred(f'U_{old}_{new}',
                   [b for b in w.groups(w.ACTION) if b not in nb + nbp])
        f = ctx.fn(prm.rename_variables)
        r = ctx.call(f, {old: new}, u, aut, label='rename_variables')
        want = spec.subst(w.term(u), [(w.z(a), w.z(b)) for a, b in
                                      zip(ob + obp, nb + nbp)])
        w.oblige(f'rename_variables({old} -> {new}).post: unprimed and primed occurrences renamed, bit by bit',
                 spec.equiv(w, w.term(r), want))
    w.canary('rename canary', spec.equiv(w, w.term(r), w.term(u)))


# ---------------------------------------------------------------------------
# support classification: complete per shape (every subset of identifiers)

def h_support(ctx):
    w = ctx.w
    aut = w.aut
    sh = w.shape
    flex = list(sh.env) + list(sh.sys)
    idents = flex + [v + "'" for v in flex] + list(sh.const)
    fns = {n: ctx.fn(getattr(prm, n)) for n in (
        'rigid_support', 'flexible_support', 'vars_in_support',
        'split_support', 'unprimed_support', 'primed_support',
        'is_primed_state_predicate')}
    isp = ctx.fn(prm.is_state_predicate)
    ipa = ctx.fn(prm.is_proper_action)
    n_sub = 0
    for k in range(0, len(idents) + 1):
        for sub in itertools.combinations(idents, k):
            n_sub += 1
            # a predicate depending on (one bit of) exactly these identifiers
            bits = [w.bits_of([v])[-1] for v in sub]
            u = w.pred(f'S{n_sub}', bits) if bits else w.const_pred(True)
            S = set(sub)
            primed = {v for v in S if v.endswith("'")}
            unprimed = S - primed
            rigid = {v for v in unprimed if v in sh.const}
            flexs = unprimed - rigid
            ok = (
                aut.support(u) == S
                and fns['primed_support'](u, aut) == primed
                and fns['unprimed_support'](u, aut) == unprimed
                and fns['split_support'](u, aut) == (unprimed, primed)
                and fns['rigid_support'](u, aut) == rigid
                and fns['flexible_support'](u, aut) == flexs
                and fns['vars_in_support'](u, aut) == flexs | {v[:-1] for v in primed}
                and bool(isp(u)) == (not primed)
                and bool(ipa(u)) == (bool(primed) and bool(unprimed))
                and bool(fns['is_primed_state_predicate'](u, aut)) == (not flexs))
            w.oblige(f'support classification is exact for support = {sorted(S)}',
                     z3.BoolVal(ok))
    w.oblige('is_variable / is_constant follow the declaration',
             z3.BoolVal(all(prm.is_variable(v, aut) for v in flex)
                        and all(prm.is_constant(v, aut) for v in sh.const)))
    w.canary('support canary', z3.BoolVal(n_sub == 0))


# ---------------------------------------------------------------------------
# width / limit arithmetic: unbounded in the hint

def h_width_limits(run, functions):
    """`dom_to_width` and `_bitfield_limits` on symbolic integers lo <= hi."""
    lo, hi = symint.SymInt('lo'), symint.SymInt('hi')
    for ax in symint.pow2_axioms():
        run.assume(ax)
    run.assume(lo.t <= hi.t)
    f, info = cutloops.extract(bv.dom_to_width)
    functions[info['function']] = dict(info, stubs=[])
    g, info = cutloops.extract(tyh._bitfield_limits)
    functions[info['function']] = dict(info, stubs=[])
    signed, width = f((lo, hi))
    ts = signed.t if isinstance(signed, SymBool) else z3.BoolVal(bool(signed))
    tw = width.t if isinstance(width, symint.SymInt) else z3.IntVal(width)
    run.oblige('dom_to_width.post: signed <=> lo < 0 <= hi; width >= 1',
               z3.And(ts == z3.And(lo.t < 0, hi.t >= 0), tw >= 1))
    limits = g(dict(width=width, signed=signed, dom=(lo, hi)))
    L, H = (x.t if isinstance(x, symint.SymInt) else z3.IntVal(x) for x in limits)
    run.oblige('type hints: every value inside the declared hint is representable (limits.lo <= lo, hi <= limits.hi)',
               z3.And(L <= lo.t, hi.t <= H))
    p = symint.pow2
    closed = z3.If(ts, z3.And(L == -p(tw - 1), H == p(tw - 1) - 1),
                   z3.If(lo.t >= 0, z3.And(L == 0, H == p(tw) - 1),
                         z3.And(L == -p(tw), H == -1)))
    run.oblige('_bitfield_limits.post: limits are the decode range of `width` bits under the sign convention (signed / constant 0 sign / constant 1 sign)',
               closed)
    run.oblige('dom_to_width.post: width is at most one bit more than necessary (half the range would not hold the hint, except for a bound equal to minus a power of two), or the 1-bit minimum',
               z3.Or(tw == 1,
                     z3.If(ts, z3.Or(hi.t >= p(tw - 2), lo.t <= -p(tw - 2)),
                           z3.If(lo.t >= 0, hi.t >= p(tw - 1),
                                 lo.t <= -p(tw - 1)))))
    run.canary('width canary: limits equal the hint', z3.And(L == lo.t, H == hi.t))


def h_decode_range(n, conv):
    """Bit vectors of width n under a sign convention decode ONTO the closed
    range, injectively (per concrete width)."""
    def h(run, functions):
        c = cc.Circ()
        bits = c.atoms('v', n)
        bits2 = c.atoms('u', n)
        sign = {'signed': None, 'nonneg': '0', 'neg': '1'}[conv]

        def full(bs):
            d = dict(signed=(conv == 'signed'),
                     dom=(0, 1) if conv == 'nonneg' else (-2, -1))
            out = list(bs)
            bv._append_sign_bit(out, 'v', d)
            return out
        f1, f2 = full(bits), full(bits2)
        t1, t2 = c.eval_bits(f1, []), c.eval_bits(f2, [])
        Wd = n + 3
        s1 = z3.SignExt(Wd - len(t1), cc.bv_of(t1))
        s2 = z3.SignExt(Wd - len(t2), cc.bv_of(t2))
        if conv == 'signed':
            L, H = -2 ** (n - 1), 2 ** (n - 1) - 1
        elif conv == 'nonneg':
            L, H = 0, 2 ** n - 1
        else:
            L, H = -2 ** n, -1
        run.oblige(f'decode range width {n} {conv}: every bit vector decodes into [{L}, {H}]',
                   z3.And(z3.BitVecVal(L, Wd) <= s1, s1 <= z3.BitVecVal(H, Wd)))
        run.oblige(f'decode width {n} {conv}: injective; with 2^n = H - L + 1 it is onto the range',
                   z3.And(z3.Implies(s1 == s2, z3.And(*[
                       a == b for a, b in zip(t1[:n], t2[:n])])),
                       z3.BoolVal(2 ** n == H - L + 1)))
        hint = dict(width=n, signed=(conv == 'signed'),
                    dom=(0, 1) if conv == 'nonneg' else ((-2, -1) if conv == 'neg' else (-1, 1)))
        run.oblige(f'_bitfield_limits agrees with the decode range (width {n}, {conv})',
                   z3.BoolVal(tyh._bitfield_limits(hint) == (L, H)))
        run.canary('decode canary', s1 == s2)
    return h


# ---------------------------------------------------------------------------
# hint formulas (strings embed numerals: per hint in a window)

def h_hint_formulas(ctx):
    w = ctx.w
    aut = w.aut
    lo, hi = ctx.p['hint']
    d = aut.vars['x']
    sg, wd = bv.dom_to_width((lo, hi))
    w.oblige('bitblast_table: signed / width / bitnames follow dom_to_width; bit names distinct',
             z3.BoolVal(d['signed'] == sg and d['width'] == wd
                        and len(d['bitnames']) == wd == len(set(d['bitnames']))
                        and aut.vars["x'"]['bitnames'] == [b + "'" for b in d['bitnames']]))
    bits = bv.var_to_twos_complement('x', aut.vars)
    w.oblige('var_to_twos_complement: sign bit is a variable bit iff signed, else the literal of the hint\'s sign',
             z3.BoolVal(bits[:wd] == d['bitnames'] and
                        (len(bits) == wd if sg else
                         bits[wd:] == ['0' if lo >= 0 else '1'])))
    den = denote.Den(aut.vars, w.z)
    X = den.var_int('x')
    Xp = den.var_int('x', primed=True)
    W = denote.W
    inr = z3.And(z3.BitVecVal(lo, W) <= X, X <= z3.BitVecVal(hi, W))
    inrp = z3.And(z3.BitVecVal(lo, W) <= Xp, Xp <= z3.BitVecVal(hi, W))
    L, H = den.limits('x')
    w.oblige('type hints: every value of the hint is within the bitfield limits',
             z3.BoolVal(L <= lo and hi <= H and (L, H) == tyh._bitfield_limits(d)))
    s = aut.type_hint_for(['x', 'b'])
    w.oblige(f'type_hint_for: denotes {lo} <= x <= {hi}',
             w.valid_goal(den.formula(s) == inr))
    s = aut.type_hint_for(["x'", 'b'])
    w.oblige(f'type_hint_for(primed identifier): denotes {lo} <= x\' <= {hi} (documented: `vrs` may contain primed or unprimed identifiers)',
             w.valid_goal(den.formula(s) == inrp))
    s = aut.type_hint_for(['x', "x'", "b'"])
    w.oblige('type_hint_for(x, x\'): denotes the hint on both',
             w.valid_goal(den.formula(s) == z3.And(inr, inrp)))
    s = aut.type_action_for(['x', 'b'])
    w.oblige('type_action_for: denotes the hint on x and on x\'',
             w.valid_goal(den.formula(s) == z3.And(inr, inrp)))
    u = ctx.call(ctx.fn(tyh._conjoin_type_hints), ['x', 'b'], aut,
                 label='_conjoin_type_hints')
    w.oblige('_conjoin_type_hints: BDD of the hint', w.valid_goal(w.term(u) == inr))
    init, safety = bv.type_invariants(aut.vars)
    w.oblige('type_invariants: init and safety constraints of x are the hint (now and next)',
             w.valid_goal(z3.And(
                 den.formula(stx.conj(init['x'])) == inr,
                 den.formula(stx.conj(safety['x'])) == z3.And(inr, inrp))))
    # implication check, for ALL predicates u
    P = w.pred('P', w.STATE)
    f = ctx.fn(trl.Automaton.implies_type_hints)
    r = ctx.call(f, aut, P, label='implies_type_hints')
    tr = r.t if isinstance(r, SymBool) else z3.BoolVal(bool(r))
    allhints = inr
    if 'k' in w.shape.const:
        klo, khi = w.shape.const['k']
        K = den.var_int('k')
        allhints = z3.And(inr, z3.BitVecVal(klo, W) <= K, K <= z3.BitVecVal(khi, W))
    w.oblige('implies_type_hints(u) <=> for all values, u => type hints of every declared variable AND constant',
             tr == w.valid(z3.Implies(w.term(P), allhints)))
    r3 = ctx.call(f, aut, P, vrs=['x'], label='implies_type_hints')
    tr3 = r3.t if isinstance(r3, SymBool) else z3.BoolVal(bool(r3))
    w.oblige('implies_type_hints(u, vrs=[x]) <=> for all values, u => lo <= x <= hi',
             tr3 == w.valid(z3.Implies(w.term(P), inr)))
    r2 = ctx.call(f, aut, P, vrs=['b'], label='implies_type_hints')
    tr2 = r2.t if isinstance(r2, SymBool) else z3.BoolVal(bool(r2))
    w.oblige('implies_type_hints(u, vrs=[Boolean]) is TRUE', tr2)
    w.canary('hint canary: implies_type_hints(u) <=> u implies the complement of the hint',
             tr3 == w.valid(z3.Implies(w.term(P), z3.Not(inr))))
