r"""Sidecar contracts for C16 (bounded only): `lexyacc.Parser.parse`,
`Nodes.*.flatten` and `gr1.split_gr1`.

The parse itself is performed by PLY's table interpreter, so no deductive
contract reaches it (DESIGN.md section 4).  What can be stated is the
POSTCONDITION of `Parser.parse`: the tree equals the one a reference
precedence-climbing parser builds from the DOCUMENTED table (doc/doc.md, "token
precedence (lowest to highest) and associativity").  It is evaluated at run
time on generated token sequences: bounded, never counted as proved.

yacc resolves every shift/reduce conflict of an operator grammar PAIRWISE (the
precedence of the rule on the stack against the lookahead token), so the
family "all pairs" -- every ordered pair of operator tokens of the table in
every relative position (binary/binary, prefix/binary, binary/prefix,
postfix) -- exercises every entry of that relation; longer random sequences
with random parenthesisation are run on top.
"""
import itertools
import random
import re

import omega.logic.lexyacc as lexyacc
import omega.gr1 as gr1


# ---------------------------------------------------------------------------
# the documented table, lowest to highest: (associativity, kind, tokens)
# kind: b = binary infix, p = prefix, s = postfix
# tokens: spelling -> value the documented synonyms are normalised to

TABLE = [
    ('l', 'b', {'<=>': '<=>', '<->': '<=>'}),
    ('l', 'b', {'=>': '=>', '->': '=>'}),
    ('l', 'b', {'^': '^'}),
    ('l', 'b', {r'\/': r'\/', '|': r'\/', '||': r'\/'}),
    ('l', 'b', {'/\\': '/\\', '&': '/\\', '&&': '/\\'}),
    ('l', 'p', {'[]': '[]', '<>': '<>', '-[]': '-[]', '-<>': '-<>'}),
    ('l', 'b', {'U': 'U', 'W': 'W', 'R': 'R', 'S': 'S', 'T': 'T'}),
    ('l', 'b', {'=': '=', '#': '#', '/=': '#', '!=': '#'}),
    ('l', 'b', {'<=': '<=', '=<': '<=', '>=': '>=', '>': '>', '<': '<'}),
    ('l', 'b', {'+': '+', '-': '-'}),
    ('l', 'b', {'*': '*', '/': '/', '%': '%'}),
    ('r', 'p', {'~': '~', '!': '~'}),
    ('r', 'p', {'X': 'X', '-X': '-X', '--X': '--X'}),
    ('l', 's', {"'": "'"}),
]
# spellings whose value the lexer keeps as written (operator string of the node
# differs between synonyms; recorded as a finding if the trees differ)
CLASS_OF = {'U': 'Binary', 'W': 'Binary', 'R': 'Binary', 'S': 'Binary', 'T': 'Binary',
            '=': 'Comparator', '#': 'Comparator', '/=': 'Comparator', '!=': 'Comparator',
            '<=': 'Comparator', '=<': 'Comparator', '>=': 'Comparator', '>': 'Comparator',
            '<': 'Comparator',
            '+': 'Arithmetic', '-': 'Arithmetic', '*': 'Arithmetic', '/': 'Arithmetic',
            '%': 'Arithmetic'}

BINARY = dict()     # spelling -> (level, assoc, value)
PREFIX = dict()
POSTFIX = dict()
for _lvl, (_a, _k, _toks) in enumerate(TABLE, 1):
    for _s, _v in _toks.items():
        {'b': BINARY, 'p': PREFIX, 's': POSTFIX}[_k][_s] = (_lvl, _a, _v)

ATOMS = ['a', 'b', 'c', 'p', 'q', 'x1', 'TRUE', 'FALSE', '0', '7', '12', '"s1"', '"abc"']
ATOM_SYNONYMS = {}     # `True`, `true`, ... are accepted but not documented: not claimed


# ---------------------------------------------------------------------------
# reference: precedence climbing over a token list, trees as repr strings in
# the format of astutils' __repr__

class RefError(Exception):
    pass


def _atom_repr(tok):
    if tok in ('TRUE', 'True', 'true'):
        return "Bool('TRUE', 'bool')"
    if tok in ('FALSE', 'False', 'false'):
        return "Bool('FALSE', 'bool')"
    if tok.startswith('"') and tok.endswith('"') and len(tok) > 2:
        return f"Str({tok!r}, 'str')"
    if tok.isdigit():
        return f"Num({tok!r}, 'num')"
    if re.fullmatch(r'[A-Za-z_][A-Za-z0-9_]*', tok):
        return f"Var({tok!r}, 'var')"
    raise RefError(tok)


def _unary(value, x):
    return f'Unary({value!r}, {x})'


def _binary(spelling, value, x, y):
    cls = CLASS_OF.get(spelling, 'Binary')
    return f'{cls}({value!r}, {x}, {y})'


class Ref:
    def __init__(self, tokens, keep_spelling=()):
        self.toks = list(tokens)
        self.i = 0
        self.keep = set(keep_spelling)

    def peek(self):
        return self.toks[self.i] if self.i < len(self.toks) else None

    def take(self):
        t = self.peek()
        self.i += 1
        return t

    def parse(self):
        r = self.expr(0)
        if self.peek() is not None:
            raise RefError(f'trailing {self.peek()}')
        return r

    def value(self, spelling, v):
        return spelling if spelling in self.keep else v

    def expr(self, min_level):
        t = self.take()
        if t is None:
            raise RefError('eof')
        if t == '(':
            left = self.expr(0)
            if self.take() != ')':
                raise RefError('paren')
        elif t in PREFIX:
            lvl, assoc, v = PREFIX[t]
            # the operand extends over every operator that binds tighter
            operand = self.expr(lvl)
            left = _unary(v, operand)
        elif t == '-' and self.peek() is not None and self.peek().isdigit():
            left = f"Num({'-' + self.take()!r}, 'num')"
        else:
            left = _atom_repr(t)
        while True:
            t = self.peek()
            if t in POSTFIX:
                lvl, assoc, v = POSTFIX[t]
                if lvl > min_level:
                    self.take()
                    left = _unary('X', left)
                    continue
                break
            if t in BINARY:
                lvl, assoc, v = BINARY[t]
                if lvl > min_level:
                    self.take()
                    right = self.expr(lvl if assoc == 'l' else lvl - 1)
                    left = _binary(t, self.value(t, v), left, right)
                    continue
            break
        return left


def ref_tree(tokens, keep_spelling=()):
    return Ref(tokens, keep_spelling).parse()


_PARSER = None


def real_tree(text):
    global _PARSER
    if _PARSER is None:
        _PARSER = lexyacc.Parser()
    return _PARSER.parse(text)


# the lexer keeps these spellings as the node's operator (all other documented
# synonyms are normalised); see DESIGN.md section 9.4
KEPT = ('#', '/=', '!=', '<=', '=<')


def _modulo_kept(tree_repr):
    """Compare modulo the spelling of the synonyms the lexer keeps as written
    (whichever spelling the parser returns: the strict comparison is the
    separate family `documented synonyms give the same tree`)."""
    t = re.sub(r"Comparator\('(/=|!=)'", "Comparator('#'", tree_repr)
    return re.sub(r"Comparator\('=<'", "Comparator('<='", t)


def _compare(tokens, fails, what, keep=KEPT, text=None):
    text = ' '.join(tokens) if text is None else text
    try:
        want = ref_tree(tokens, keep)
    except RefError:
        return 0
    try:
        got = repr(real_tree(text))
    except Exception as e:
        got = f'{type(e).__name__}: {e}'[:160]
    if _modulo_kept(got) != _modulo_kept(want):
        if len(fails) < 12:
            fails.append(dict(name=what, text=text, documented_tree=want, parser_tree=got))
    return 1


def _result(n, fails, **extra):
    return dict(records=[], stats=dict(), functions={
        'omega.logic.lexyacc.Parser.parse': dict(source_lines=0, cut={}, stubs=[], dropped='run natively (PLY table interpreter): bounded'),
        'omega.logic.ast.Nodes.Binary.flatten': dict(source_lines=0, cut={}, stubs=[], dropped='run natively: bounded')},
        bounded=dict(evaluations=n, failures=fails, **extra))


# ---------------------------------------------------------------------------
# families

def canonical(kind):
    """One spelling per value."""
    d = {'b': BINARY, 'p': PREFIX, 's': POSTFIX}[kind]
    return sorted(d)


def all_pairs(spellings='all'):
    """Every ordered pair of operator tokens, in every relative position."""
    def run():
        fails = list()
        n = 0
        bins = sorted(BINARY) if spellings == 'all' else sorted(s for s, (l, a, v) in BINARY.items() if s == v)
        pres = sorted(PREFIX) if spellings == 'all' else sorted(s for s, (l, a, v) in PREFIX.items() if s == v)
        what = 'Parser.parse: the tree is the one determined by the documented precedence and associativity table'
        for o1, o2 in itertools.product(bins, bins):
            n += _compare(['a', o1, 'b', o2, 'c'], fails, what)
        for u, o in itertools.product(pres, bins):
            n += _compare([u, 'a', o, 'b'], fails, what)
            n += _compare(['a', o, u, 'b'], fails, what)
            for o2 in bins:
                if BINARY[o2][0] != BINARY[o][0] or o2 == o:
                    n += _compare(['a', o, u, 'b', o2, 'c'], fails, what)
        for u1, u2 in itertools.product(pres, pres):
            n += _compare([u1, u2, 'a'], fails, what)
            n += _compare([u1, u2, 'a', "'"], fails, what)
        for u in pres:
            n += _compare([u, 'a', "'"], fails, what)
            n += _compare([u, '(', 'a', ')', "'"], fails, what)
        for o in bins:
            n += _compare(['a', o, 'b', "'"], fails, what)
            n += _compare(['a', "'", o, 'b'], fails, what)
            n += _compare(['a', o, 'b', o, 'c'], fails, what)
            n += _compare(['a', o, '-', '3'], fails, what)
            n += _compare(['-', '3', o, 'a'], fails, what)
            n += _compare(['(', 'a', o, 'b', ')', "'"], fails, what)
        return _result(n, fails, exhaustive='every ordered pair of operator tokens of the documented table')
    return run


def _gen(rnd, depth, toks):
    """Random token sequence of the operator grammar with random parentheses."""
    k = rnd.random()
    if depth <= 0 or k < 0.22:
        t = rnd.choice(ATOMS)
        if t.isdigit() and rnd.random() < 0.2:
            toks.append('-')
        toks.append(t)
        return
    if rnd.random() < 0.25:
        toks.append('(')
        _gen(rnd, depth, toks)
        toks.append(')')
        return
    if k < 0.42:
        toks.append(rnd.choice(sorted(PREFIX)))
        _gen(rnd, depth - 1, toks)
    elif k < 0.5:
        _gen(rnd, depth - 1, toks)
        toks.append("'")
    else:
        _gen(rnd, depth - 1, toks)
        toks.append(rnd.choice(sorted(BINARY)))
        _gen(rnd, depth - 1, toks)


# lower-case names and numerals only: an upper-case letter next to '-' could form
# one of the past operators (-X, --X)
_WORD = re.compile(r"^[a-z0-9_]+'?$")


def _symbolic(tok):
    return (not any(ch.isalnum() or ch in '_"\\' for ch in tok)) and tok not in ('(', ')')


def _layout(toks, layout):
    """Blanks dropped between a name / numeral and a symbolic operator next to
    it: 'tight' on both sides, 'left-blank' only after the operator."""
    out = [toks[0]]
    for a, b in zip(toks, toks[1:]):
        if _WORD.match(a) and _symbolic(b) and not a.endswith("'"):
            sep = '' if layout == 'tight' else ' '
        elif _symbolic(a) and _WORD.match(b):
            sep = ''
        else:
            sep = ' '
        out.append(sep + b)
    return ''.join(out)


def random_sequences(seed, n_seq, depth):
    def run():
        rnd = random.Random(seed)
        fails = list()
        n = 0
        what = 'Parser.parse: the tree is the one determined by the documented precedence and associativity table (random token sequence, random parentheses)'
        for _ in range(n_seq):
            toks = list()
            _gen(rnd, depth, toks)
            n += _compare(toks, fails, what)
            # the same tokens written without blanks around symbolic operators ('a-1', 'a -1'):
            # blanks separate tokens, they are not part of any token
            for layout in ('tight', 'left-blank'):
                text = _layout(toks, layout)
                if text != ' '.join(toks):
                    n += _compare(toks, fails, what + f' [layout: {layout}]', text=text)
        return _result(n, fails, max_depth=depth, seed=seed)
    return run


def synonyms(seed, n_seq):
    """Alternative spellings give the same tree; comments and line breaks do
    not matter; flatten-then-parse is the identity."""
    def run():
        rnd = random.Random(seed)
        fails = list()
        n = 0
        by_value = dict()
        for d in (BINARY, PREFIX):
            for s, (l, a, v) in d.items():
                by_value.setdefault((id(d), v), []).append(s)
        for _ in range(n_seq):
            toks = list()
            _gen(rnd, 3, toks)
            try:
                ref_tree(toks, KEPT)
            except RefError:
                continue
            text = ' '.join(toks)
            try:
                base = real_tree(text)
            except Exception as e:
                fails.append(dict(name='Parser.parse accepts the documented operator grammar', text=text, error=repr(e)[:120]))
                continue
            # synonyms
            alt = list()
            for t in toks:
                d = BINARY if t in BINARY else PREFIX if t in PREFIX else None
                if t in ATOM_SYNONYMS:
                    alt.append(rnd.choice(ATOM_SYNONYMS[t] + [t]))
                elif t == 'X' and rnd.random() < 0.5:
                    alt.append('next')
                elif d is not None:
                    alt.append(rnd.choice(by_value[(id(d), d[t][2])]))
                else:
                    alt.append(t)
            n += 1
            try:
                got = repr(real_tree(' '.join(alt)))
            except Exception as e:
                got = repr(e)[:120]
            # compare modulo the spellings the lexer keeps
            want = ref_tree(['X' if t == 'next' else t for t in alt], KEPT)
            if _modulo_kept(got) != _modulo_kept(want) and len(fails) < 12:
                fails.append(dict(name='Parser.parse: alternative spellings of an operator give the same tree',
                                  text=' '.join(alt), original=text, documented_tree=want, parser_tree=got))
            # comments and line breaks
            pieces = list()
            for t in toks:
                pieces.append(t)
                k = rnd.random()
                if k < 0.2:
                    pieces.append('\n')
                elif k < 0.3:
                    pieces.append('(* a comment /\\ [] ( *)')
                elif k < 0.4:
                    pieces.append('\\* trailing comment ~ )\n')
                elif k < 0.5:
                    pieces.append('\t  ')
            n += 1
            try:
                got = repr(real_tree(' '.join(pieces)))
            except Exception as e:
                got = repr(e)[:120]
            if got != repr(base) and len(fails) < 12:
                fails.append(dict(name='Parser.parse: comments and line breaks do not matter',
                                  text=' '.join(pieces), original=text, parser_tree=got, tree_without=repr(base)))
            # flatten, then parse
            n += 1
            try:
                flat = base.flatten()
                got = repr(real_tree(flat))
            except Exception as e:
                flat, got = None, repr(e)[:120]
            if got != repr(base) and len(fails) < 12:
                fails.append(dict(name='flattening a tree and parsing the result gives an equal tree',
                                  text=text, flattened=flat, parser_tree=got, tree=repr(base)))
        return _result(n, fails, seed=seed)
    return run


# ---------------------------------------------------------------------------
# split_gr1

def _conj(parts, rnd):
    """Conjunction of `parts` with a random bracketing."""
    parts = list(parts)
    while len(parts) > 1:
        i = rnd.randrange(len(parts) - 1)
        parts[i:i + 2] = [f'({parts[i]} /\\ {parts[i + 1]})']
    return parts[0]


def _disj(parts, rnd):
    parts = list(parts)
    while len(parts) > 1:
        i = rnd.randrange(len(parts) - 1)
        parts[i:i + 2] = [f'({parts[i]} \\/ {parts[i + 1]})']
    return parts[0]


STATE_PREDS = ['(x > 0)', '(y + 1 < 2)', 'p', '(p => q)', '(~ p)', r'((x = 1) \/ q)', '(z - x <= 0)']
ACTIONS = ["(x' = x + 1)", '((X y) > 0)', "(p' <=> ~ p)", '(x > 0)', r"(q \/ (y' = y))"]


def split_family(seed, n_seq):
    def run():
        rnd = random.Random(seed)
        fails = list()
        n = 0

        def flat(ts):
            return [t.flatten() for t in ts]

        def norm(s):
            return repr(real_tree(s))

        for _ in range(n_seq):
            inits = rnd.sample(STATE_PREDS, rnd.choice([0, 1, 2]))
            acts = rnd.sample(ACTIONS, rnd.choice([0, 1, 2]))
            recs = rnd.sample(STATE_PREDS, rnd.choice([0, 1, 2, 3]))
            pers = rnd.sample(STATE_PREDS, rnd.choice([0, 0, 1, 2]))
            items = [('init', s, s) for s in inits] + [('action', f'([] {s})', s) for s in acts]
            live_mode = rnd.choice(['separate', 'pair']) if pers or recs else 'none'
            if pers:
                live_mode = 'pair'
            if live_mode == 'separate':
                items += [('recurrence', f'([] <> {s})', s) for s in recs]
            elif live_mode == 'pair':
                ds = [('persistence', f'(<> [] {s})', s) for s in pers]
                rr = [f'([] <> {s})' for s in recs]
                dparts = [d[1] for d in ds] + ([_conj(rr, rnd)] if rr else [])
                if not dparts:
                    continue
                # the liveness pair is ONE conjunct (a disjunction)
                rnd.shuffle(dparts)
                if len(dparts) == 1 and not ds:
                    items += [('recurrence', f'([] <> {s})', s) for s in recs]
                else:
                    items.append(('pair', _disj(dparts, rnd), (pers, recs, dparts)))
            if not items:
                continue
            rnd.shuffle(items)
            text = _conj([it[1] for it in items], rnd)
            want = dict(init=[], action=[], recurrence=[], persistence=[])
            for kind, s, payload in items:
                if kind == 'pair':
                    p_, r_, order = payload
                    # order of appearance inside the disjunction
                    for part in order:
                        if part.startswith('(<> []'):
                            want['persistence'].append(part[len('(<> [] '):-1])
                        else:
                            want['recurrence'] += re.findall(r'\(\[\] <> ((?:\((?:[^()]|\([^()]*\))*\))|\w+)\)', part)
                else:
                    want[kind].append(payload)
            n += 1
            try:
                d = gr1.split_gr1(text)
                got = {k: [repr(t) for t in v] for k, v in d.items()}
                exp = {k: [norm(s) for s in v] for k, v in want.items()}
                ok = got == exp
            except Exception as e:
                ok, got, exp = False, repr(e)[:160], want
            if not ok and len(fails) < 8:
                fails.append(dict(name='split_gr1 returns exactly the initial, safety, recurrence and persistence conjuncts',
                                  text=text, expected=exp, got=got))
        # formulas outside the fragment are rejected
        outside = [r'[] [] p', r'[] <> [] p', r'<> p', r'[] (p => <> q)', r'(<> [] p) /\ (<> [] q)',
                   r'<> [] <> p', r'(X p)', r'[] <> (X p)', r'<> [] (p /\ X q)',
                   r'([] <> p) => ([] <> q)', r'~ [] p', r'[] (x > 0) \/ [] (y > 0)',
                   # two Streett pairs, in both orders; a disjunction of recurrence formulas
                   r'([] <> q) /\ ((<> [] p) \/ ([] <> (x > 0)))', r'((<> [] p) \/ ([] <> (x > 0))) /\ ([] <> q)',
                   r'([] <> p) \/ ([] <> q)', r'(<> [] p) \/ ([] <> q) \/ ([] <> (x > 0))',
                   r'((<> [] p) \/ ([] <> q)) /\ ((<> [] (x > 0)) \/ ([] <> q))',
                   r'(<> [] p) /\ ([] <> q)',
                   # next-state operators inside arithmetic, outside `[]`
                   r"(x' + 1 > y) /\ ([] p) /\ ([] <> q)", r'[] <> ((X x) + 1 < 2)', r"<> [] (x' * 2 = y)",
                   r"(y - x' = 0)", r"([] p) /\ ([] <> (y < (X x) - 1))", r"(x = 1) /\ (<> [] (2 * (y') # x) \/ [] <> q)"]
        for text in outside:
            n += 1
            try:
                d = gr1.split_gr1(text)
                fails.append(dict(name='split_gr1 rejects formulas outside the GR(1) fragment', text=text,
                                  got={k: [t.flatten() for t in v] for k, v in d.items()}))
            except (AssertionError, ValueError, AttributeError):
                pass
        r = _result(n, fails, seed=seed)
        r['functions'] = {'omega.gr1.split_gr1': dict(source_lines=0, cut={}, stubs=[], dropped='run natively: bounded'),
                          'omega.gr1._temporal_to_canonical': dict(source_lines=0, cut={}, stubs=[], dropped='run natively: bounded')}
        return r
    return run


def spelling_classes():
    """Strict form of "alternative spellings of an operator give the same
    tree": one deterministic comparison per documented synonym."""
    def run():
        fails = list()
        n = 0
        groups = dict()
        for kind, d in (('binary', BINARY), ('prefix', PREFIX)):
            for s, (l, a, v) in d.items():
                groups.setdefault((kind, v), []).append(s)
        for (kind, v), spellings in sorted(groups.items()):
            if len(spellings) < 2:
                continue
            first = sorted(spellings, key=lambda s: (s != v, s))[0]
            for s in sorted(spellings):
                if s == first:
                    continue
                n += 1
                if kind == 'binary':
                    t1, t2 = f'a {first} b', f'a {s} b'
                else:
                    t1, t2 = f'{first} a', f'{s} a'
                try:
                    r1, r2 = repr(real_tree(t1)), repr(real_tree(t2))
                except Exception as e:
                    r1, r2 = 'error', repr(e)[:120]
                if r1 != r2:
                    fails.append(dict(
                        name=f'Parser.parse: the documented spellings {" ".join(sorted(spellings))} give the same tree',
                        text=t2, other=t1, parser_tree=r2, other_tree=r1,
                        kept_spelling=(s in KEPT or first in KEPT)))
        return _result(n, fails, exhaustive='every documented synonym of the operator table')
    return run


def comment_bodies(max_len):
    """Comments do not matter, whatever their body: every body over a small
    alphabet (exhaustive up to `max_len` characters)."""
    def run():
        fails = list()
        n = 0
        base = [('a /\\ b', ['a', '/\\', 'b']), ('~ p => ( q \\/ x1 ) \'', ['~', 'p', '=>', '(', 'q', r'\/', 'x1', ')', "'"])]
        want = {t: repr(real_tree(t)) for t, _ in base}
        alphabet = ['*', ' ', 'x', ')', '(', '\n', '~']
        for L in range(max_len + 1):
            for body in itertools.product(alphabet, repeat=L):
                body = ''.join(body)
                if '*)' in body:
                    continue        # the closer inside the body ends the comment early
                for text, toks in base:
                    for pos in (0, 1, len(toks)):
                        ml = ' '.join(toks[:pos]) + ' (*' + body + '*) ' + ' '.join(toks[pos:])
                        variants = [ml]
                        if pos == 1:
                            variants.append(' '.join(toks[:pos]) + ' (*' + body + '*)(* y *) ' + ' '.join(toks[pos:]))
                        if '\n' not in body:
                            variants.append(' '.join(toks[:pos]) + ' \\*' + body + '\n ' + ' '.join(toks[pos:]))
                        for v in variants:
                            n += 1
                            try:
                                got = repr(real_tree(v))
                            except Exception as e:
                                got = repr(e)[:120]
                            if got != want[text] and len(fails) < 10:
                                fails.append(dict(name='Parser.parse: comments and line breaks do not matter',
                                                  text=v, parser_tree=got, tree_without=want[text]))
        return _result(n, fails, exhaustive=f'every comment body of at most {max_len} characters over {alphabet}')
    return run


def comment_line_breaks(seed, n_seq):
    """A one-line comment ends at the line break: the SAME tokens with the break
    before or after the rest of the line are different formulas; one parser
    instance parses both (in both orders) and each must get its own tree."""
    def run():
        rnd = random.Random(seed)
        fails = list()
        n = 0
        for _ in range(n_seq):
            left, right = list(), list()
            _gen(rnd, 2, left)
            _gen(rnd, 2, right)
            op = rnd.choice(sorted(BINARY))
            try:
                want_full = ref_tree(left + [op] + right, KEPT)
                want_left = ref_tree(left, KEPT)
            except RefError:
                continue
            note = rnd.choice(['note', 'c /\\ d', 'x )', '~'])
            a = ' '.join(left) + ' \\* ' + note + '\n ' + op + ' ' + ' '.join(right)        # the comment ends early
            b = ' '.join(left) + ' \\* ' + note + ' ' + op + ' ' + ' '.join(right) + '\n'     # the comment swallows the rest
            order = [(a, want_full), (b, want_left)]
            if rnd.random() < 0.5:
                order.reverse()
            for text, want in order:
                n += 1
                try:
                    got = repr(real_tree(text))
                except Exception as e:
                    got = repr(e)[:120]
                if _modulo_kept(got) != _modulo_kept(want) and len(fails) < 8:
                    fails.append(dict(name='Parser.parse: a one-line comment ends at the line break (same tokens, other placement of the break, same parser instance)',
                                      text=text, documented_tree=want, parser_tree=got))
        return _result(n, fails, seed=seed)
    return run
