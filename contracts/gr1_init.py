"""Sidecar contracts for `gr1.is_realizable` and `gr1._make_init` (C03).

Postconditions are written from the statement of C03 and the four documented
quantifications of initial values.
"""
import contextlib
import io

import z3

import omega.games.gr1 as gr1

from ovc import spec
from ovc.engine import SymBool
from contracts.fixpoint import set_mode, snapshot, independent_of

QINITS = [r'\A \A', r'\E \E', r'\A \E', r'\E \A']


def _as_term(r):
    if isinstance(r, SymBool):
        return r.t
    if isinstance(r, bool):
        return z3.BoolVal(r)
    raise TypeError(r)


def _setup(ctx):
    w = ctx.w
    aut = set_mode(ctx)
    qinit = ctx.p['qinit']
    aut.qinit = qinit
    win = w.pred('Win', w.STATE)
    if qinit == r'\A \A':
        sys_init = w.const_pred(True)     # requires: SysInit == TRUE
    else:
        sys_init = w.pred('SysInit', w.STATE)
    if qinit == r'\E \E':
        env_init = w.const_pred(True)     # requires: EnvInit == TRUE
    else:
        env_init = w.pred('EnvInit', w.STATE)
    aut.init['env'] = env_init
    aut.init['sys'] = sys_init
    return aut, qinit, win, env_init, sys_init


def verdict_spec(w, qinit, plus_one, tW, tE, tS):
    """The initial-condition formula of the qinit form, closed (valid for all
    values of rigid constants)."""
    x = w.zs(w.group('env'))
    y = w.zs(w.group('sys'))
    c = w.zs(w.group('const'))
    if plus_one:
        form = z3.And(tS, z3.Implies(tE, tW))
    else:
        form = z3.Implies(tE, z3.And(tS, tW))
    if qinit == r'\A \A':
        body = spec.forall(x + y, z3.Implies(tE, tW))
    elif qinit == r'\E \E':
        body = spec.exists(x + y, z3.And(tS, tW))
    elif qinit == r'\A \E':
        body = spec.forall(x, spec.exists(y, form))
    elif qinit == r'\E \A':
        body = spec.exists(y, spec.forall(x, form))
    else:
        raise ValueError(qinit)
    return spec.forall(c, body), form


def h_is_realizable(ctx):
    w = ctx.w
    aut, qinit, win, env_init, sys_init = _setup(ctx)
    tW, tE, tS = map(w.term, (win, env_init, sys_init))
    before = snapshot(aut)
    f = ctx.fn(gr1.is_realizable)
    with contextlib.redirect_stdout(io.StringIO()):
        if ctx.p.get('asked_before', True):
            # the same automaton was asked before under the OTHER causality form
            # (no verdict may be remembered across a change of aut.plus_one)
            aut.plus_one = not ctx.p['plus_one']
            ctx.call(f, win, aut, label='is_realizable')
            aut.plus_one = ctx.p['plus_one']
        if ctx.p.get('keyword', not ctx.p.get('moore')):
            r = ctx.call(f, win=win, aut=aut, label='is_realizable')
        else:
            r = ctx.call(f, win, aut, label='is_realizable')
    tr = _as_term(r)
    verdict, _ = verdict_spec(w, qinit, ctx.p['plus_one'], tW, tE, tS)
    w.oblige(f'is_realizable.post: verdict <=> the {qinit} initial formula is valid',
             tr == verdict)
    w.oblige('is_realizable.frame: aut unchanged',
             z3.BoolVal(snapshot(aut) == before), kind='frame')
    w.canary('is_realizable.canary: verdict is TRUE', tr)
    w.canary('is_realizable.canary: verdict is FALSE', z3.Not(tr))
    # the other implication form must be distinguishable where both inits are free
    if qinit in (r'\A \E', r'\E \A'):
        other, _ = verdict_spec(w, qinit, not ctx.p['plus_one'], tW, tE, tS)
        w.canary('is_realizable.canary: verdict <=> formula of the other causality mode',
                 tr == other)


def h_make_init(ctx):
    w = ctx.w
    aut, qinit, win, env_init, sys_init = _setup(ctx)
    internal = w.pred('InternalInit', w.STATE)
    tW, tE, tS, tI = map(w.term, (win, env_init, sys_init, internal))
    plus_one = ctx.p['plus_one']
    verdict, form = verdict_spec(w, qinit, plus_one, tW, tE, tS)
    # requires: the realizability verdict holds (the transducer
    # constructors assert it before calling `_make_init`)
    w.assume(verdict)
    if ctx.p.get('int_flag', not ctx.p.get('moore')):
        # the flag given as 1 / 0: every reader of `aut.plus_one` tests its truth value
        aut.plus_one = 1 if plus_one else 0
    if ctx.p.get('stale_impl', plus_one):
        # an implementation was synthesized earlier on the same automaton:
        # its initial condition is still stored
        aut.init['impl'] = w.pred('EarlierImplInit', w.STATE)
    before = snapshot(aut)
    f = ctx.fn(gr1._make_init)
    ctx.call(f, internal, win, aut, label='_make_init')
    init = aut.init['impl']
    ti = w.term(init)
    x = w.zs(w.group('env'))
    if qinit == r'\A \A':
        doc = z3.BoolVal(True)
    elif qinit == r'\E \E':
        doc = z3.And(tW, tS)
    elif qinit == r'\A \E':
        doc = form
    else:
        doc = spec.forall(x, form)
    hyps = [verdict]
    w.oblige(f'_make_init.post: init[impl] == documented set for {qinit} /\\ InternalInit',
             spec.equiv(w, ti, z3.And(doc, tI)), hyps=hyps)
    w.oblige('_make_init.post: internal memory at its initial value',
             spec.subset(w, ti, tI), hyps=hyps)
    w.oblige('_make_init.post: admitted states meet SysInit and are winning when EnvInit holds',
             spec.subset(w, z3.And(ti, tE), z3.And(tS, tW)), hyps=hyps)
    after = snapshot(aut)
    frame_ok = (after[0] == before[0] and after[1] == before[1]
                and after[2] == before[2] and after[4] == before[4]
                and {k: v for k, v in after[3].items() if k != 'impl'}
                == {k: v for k, v in before[3].items() if k != 'impl'})
    w.oblige('_make_init.frame: only init[impl] written',
             z3.BoolVal(frame_ok), kind='frame')
    w.canary('_make_init.canary: init[impl] == InternalInit /\\ Win',
             spec.equiv(w, ti, z3.And(tI, tW)), hyps=hyps)
    if qinit in (r'\A \E', r'\E \A'):
        _, form2 = verdict_spec(w, qinit, not plus_one, tW, tE, tS)
        doc2 = form2 if qinit == r'\A \E' else spec.forall(x, form2)
        w.canary('_make_init.canary: documented set of the other causality mode',
                 spec.equiv(w, ti, z3.And(doc2, tI)), hyps=hyps)


FUNCTIONS = dict(is_realizable=h_is_realizable, _make_init=h_make_init)
