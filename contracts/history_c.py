"""Sidecar contracts for C17: results do not depend on back end, translator,
variable order or context history."""
import itertools
import random

import z3

import omega.logic.bitvector as bv
import omega.symbolic.bdd as sym_bdd
import omega.symbolic.bdd_iterative as bdd_it
import omega.symbolic.fol as fol
import omega.symbolic.temporal as trl

from ovc import spec, denote
from ovc import engine as eng
from ovc.engine import SymBool


def h_declare_frame(ctx):
    """Declaring further variables never changes what is already there."""
    w = ctx.w
    c = w.aut
    old_bits = list(c.bdd.vars)
    u = w.pred('Earlier', old_bits)
    tu = w.term(u)
    before_vars = {k: dict(v) for k, v in c.vars.items()}
    supp_before = c.support(u)
    new = ctx.p['new']
    declare = ctx.fn(fol.Context.declare) if not ctx.p.get('flexible') else None
    try:
        if ctx.p.get('flexible'):
            c.declare_variables(**new)
        else:
            declare(c, **new)
        raised = None
    except (ValueError, AssertionError) as e:
        raised = e
    if ctx.p.get('expect_refusal'):
        # either the declaration is refused, or the identifiers stay independent
        ok_indep = raised is not None
        if raised is None:
            owned = dict()
            ok_indep = True
            for name, d in c.vars.items():
                bits = [name] if d['type'] == 'bool' else list(d['bitnames'])
                for b in bits:
                    if b in owned and owned[b] != name:
                        ok_indep = False
                    owned[b] = name
        w.oblige('declare: distinct identifiers never share a bit (a clashing declaration is refused)',
                 z3.BoolVal(ok_indep))
        w.oblige('declare.frame: the meaning and the reported support of an earlier BDD are unchanged',
                 z3.BoolVal(c.support(u) == supp_before))
        w.canary('declare canary(info)', z3.BoolVal(False))
        return
    w.oblige('declare: accepts fresh identifiers (and identical re-declarations)', z3.BoolVal(raised is None))
    w.oblige('declare.frame: every earlier table entry is unchanged',
             z3.BoolVal(all(c.vars.get(k) == v for k, v in before_vars.items())))
    added = [k for k in c.vars if k not in before_vars]
    new_bits = [b for k in added for b in ([k] if c.vars[k]['type'] == 'bool' else c.vars[k]['bitnames'])]
    w.oblige('declare: new identifiers get fresh bits, disjoint from all earlier bits and from each other',
             z3.BoolVal(not set(new_bits) & set(old_bits) and len(set(new_bits)) == len(new_bits)
                        and all(b in c.bdd.vars for b in new_bits)))
    w.oblige('declare.frame: the meaning and the reported support of an earlier BDD are unchanged',
             z3.And(z3.BoolVal(c.support(u) == supp_before), spec.equiv(w, w.term(u), tu)))
    # adding another formula does not change it either
    v = c.add_expr(ctx.p['formula'])
    w.oblige('add_expr of another formula leaves an earlier BDD unchanged',
             spec.equiv(w, w.term(u), tu))
    # repeating an operation gives the same answer
    v2 = c.add_expr(ctx.p['formula'])
    w.oblige('repeating add_expr gives an equivalent BDD', spec.equiv(w, w.term(v), w.term(v2)))
    w.canary('declare canary', spec.equiv(w, w.term(v), tu))


def h_cache(ctx):
    """`Automaton._fetch_expr(u)` returns None or an expression equivalent to u."""
    w = ctx.w
    aut = w.aut
    exprs = ctx.p['exprs']
    fetch = ctx.fn(trl.Automaton._fetch_expr)
    cache = ctx.fn(trl.Automaton._cache_expr)
    clear = ctx.fn(trl.Automaton._clear_invalid_cache)
    den = denote.Den(aut.vars, w.z)
    nodes = [cache(aut, e) for e in exprs]
    for e, u in zip(exprs, nodes):
        w.oblige(f'_cache_expr("{e}") returns the BDD of the expression',
                 w.valid_goal(w.term(u) == den.formula(e)))
    # poison: an entry whose identifier is now that of a different node
    stale_uid = aut._uid_of_node(nodes[0])
    aut._bdd_to_expr[stale_uid] = exprs[-1]
    for u in nodes + [w.pred('Other', w.STATE)]:
        r = fetch(aut, u)
        if r is not None:
            w.oblige('_fetch_expr: a returned expression is equivalent to the BDD it labels',
                     w.valid_goal(w.term(u) == den.formula(r)) if r in exprs else z3.BoolVal(False))
    w.oblige('_fetch_expr: an entry that no longer matches its node is dropped, not shown',
             z3.BoolVal(aut._bdd_to_expr.get(stale_uid) != exprs[-1]
                        or z3.is_true(z3.simplify(den.formula(exprs[-1]) == den.formula(exprs[0])))))
    aut._bdd_to_expr[aut._uid_of_node(nodes[1])] = exprs[0]
    clear(aut)
    ok = True
    for uid, e in aut._bdd_to_expr.items():
        ok = ok and aut._uid_of_node(aut.add_expr(e)) == uid
    w.oblige('_clear_invalid_cache: only entries whose expression still yields the node remain', z3.BoolVal(ok))
    aut.action['impl'] = exprs[0]
    aut.init['impl'] = exprs[1]
    s = str(aut)
    w.oblige('str(automaton): shows the cached expression of each labelled BDD',
             z3.BoolVal(f'action[impl] = {exprs[0]}' in s and f'init[impl] = {exprs[1]}' in s))
    w.canary('cache canary', z3.BoolVal(len(nodes) == 0))


def translators_agree(cname, primed=False):
    """Both prefix translators give equivalent BDDs on the prefix strings the
    bitblaster produces (abstract manager: for all values)."""
    from contracts import bv_nodes as bn
    from ovc import specbdd

    def run():
        decl = bn.CONTEXTS[cname]
        c = trl.Automaton()
        c.bdd = specbdd.SpecBDD()
        if primed:
            c.declare_variables(**decl)
        else:
            c.declare(**decl)
        records = list()

        def h(run_):
            for f in (bn.PRIMED if primed else bn.FORMULAS):
                if r'\S' in f:
                    continue
                s = bv.bitblast(f, vrs=c.vars)
                u = sym_bdd.add_expr(s, c.bdd)
                try:
                    v = bdd_it.add_expr(s, c.bdd)
                except Exception as e:
                    run_.refusal(f'the iterative translator accepts the prefix string of "{f}"', e, False)
                    continue
                run_.oblige(f'recursive and iterative prefix translators agree on "{f}"',
                            u.t == v.t)
            run_.canary('translators canary', z3.BoolVal(False))
        recs, stats = eng.explore(h)
        return dict(records=recs, stats=stats, functions={
            'omega.symbolic.bdd_iterative.Parser.parse': dict(source_lines=0, cut={}, stubs=[], dropped='run natively on SpecBDD (no stubs)'),
            'omega.symbolic.bdd.add_expr': dict(source_lines=0, cut={}, stubs=[], dropped='run natively on SpecBDD (no stubs)')})
    return run


def ddcheck_family(seed, n_seq):
    def run():
        from ovc import ddcheck
        n, problems = ddcheck.run(seed, n_seq, 40)
        if problems:
            raise RuntimeError(f'ASSUMPTION A1 BROKEN: dd does not conform to SpecBDD: {problems[:3]}')
        return dict(records=[], stats=dict(), functions={}, bounded=dict(
            evaluations=n, failures=[], what='differential validation of SpecBDD against dd.autoref and dd.cudd (incl. garbage collection and reordering)'))
    return run


def history_sequences(seed, n_seq, backend):
    """Random sequences of context operations against a truth-table model."""
    def run():
        import dd.autoref as autoref
        rnd = random.Random(seed)
        fails = list()
        n = 0
        pool_formulas = ['x < y', r'b /\ (x = 1)', r'(x + y = 2) \/ ~ b', 'y >= 1', r'x \in 1..2', 'x * y = 2', 'b <=> (x > y)']
        for sidx in range(n_seq):
            c = fol.Context()
            if backend == 'autoref':
                c.bdd = autoref.BDD()
            c.declare(x=(0, 3), y=(0, 2), b='bool', z=(0, 3))
            names = ['x', 'y', 'b', 'z']
            den = denote.Den(c.vars, lambda q: None)
            doms = dict(x=range(0, 4), y=range(0, 4), b=[False, True], z=range(0, 4))
            pts = [dict(zip(names, v)) for v in itertools.product(*[doms[k] for k in names])]
            store = list()     # (node, truth table)

            def tt(u):
                return tuple(c.let(p, u) == c.true for p in pts)
            extra = 0
            for step in range(14):
                n += 1
                op = rnd.choice(['add', 'add', 'declare', 'quantify', 'let', 'print', 'reorder', 'gc', 'copy', 'apply', 'ref', 'swap'])
                try:
                    if op == 'add' or not store:
                        u = c.add_expr(rnd.choice(pool_formulas))
                        store.append((u, tt(u)))
                    elif op == 'declare':
                        extra += 1
                        c.declare(**{f'w{extra}': rnd.choice(['bool', (0, 2), (-2, 1)])})
                    elif op == 'quantify':
                        u, _ = rnd.choice(store)
                        v = c.exist({'b'}, u)
                        store.append((v, tt(v)))
                    elif op == 'let':
                        u, _ = rnd.choice(store)
                        v = c.let(dict(y=rnd.choice([0, 1, 2])), u)
                        store.append((v, tt(v)))
                    elif op == 'ref':
                        # an earlier BDD (possibly a constant) referred to by node in a formula
                        u, t0 = rnd.choice(store + [(c.false, tuple(False for _ in pts)), (c.true, tuple(True for _ in pts))])
                        tmpl, fn_ = rnd.choice([(r'{u} /\ b', lambda a, p: a and p['b']), (r'~ {u} \/ (x = 1)', lambda a, p: (not a) or p['x'] == 1),
                                                (r'{u} <=> b', lambda a, p: a == p['b'])])
                        r = c.add_expr(tmpl.format(u=u))
                        want = tuple(fn_(a, p) for a, p in zip(t0, pts))
                        if tt(r) != want:
                            fails.append(dict(name='a formula that refers to an earlier BDD by node means that BDD (also when it is a constant)',
                                              formula=tmpl.format(u=u), backend=backend, seq=sidx, step=step, seed=seed))
                        store.append((r, want))
                    elif op == 'swap':
                        # simultaneous renaming of same-typed variables (x, y both 2-bit unsigned here)
                        u, t0 = rnd.choice(store)
                        if c.support(u) <= set(names):
                            r = c.let(dict(x='z', z='x'), u)
                            idx = {tuple(p[k] for k in names): i for i, p in enumerate(pts)}
                            want = tuple(t0[idx[(p['z'], p['y'], p['b'], p['x'])]] for p in pts)
                            if tt(r) != want:
                                fails.append(dict(name='let({x: z, z: x}) is the simultaneous renaming', backend=backend, seq=sidx, step=step, seed=seed))
                            store.append((r, want))
                    elif op == 'apply':
                        (u, _), (v, _) = rnd.choice(store), rnd.choice(store)
                        r = c.apply(rnd.choice(['and', 'or', 'xor']), u, v)
                        store.append((r, tt(r)))
                    elif op == 'print':
                        u, t0 = rnd.choice(store)
                        if u != c.false and u != c.true and c.support(u) <= {'x', 'y'}:
                            s = c.to_expr(u, care=c.add_expr(r'(x \in 0..3) /\ (y \in 0..3)'))
                            g = c.add_expr(s)
                            if tt(g) != t0:
                                fails.append(dict(name='printing a BDD as a formula and re-adding it gives the same meaning', expr=s[:200]))
                    elif op == 'reorder':
                        if backend == 'autoref':
                            autoref.reorder(c.bdd)
                        else:
                            import dd.cudd as cudd
                            cudd.reorder(c.bdd)
                    elif op == 'gc':
                        if hasattr(c.bdd, 'collect_garbage'):
                            c.bdd.collect_garbage()
                    elif op == 'copy':
                        other = fol.Context()
                        if backend == 'autoref':
                            other.bdd = autoref.BDD()
                        other.declare(x=(0, 3), y=(0, 2), b='bool', z=(0, 3))
                        u, t0 = rnd.choice(store)
                        v = c.copy(u, other)
                        if tuple(other.let(p, v) == other.true for p in pts) != t0:
                            fails.append(dict(name='copying a BDD to another context preserves its meaning'))
                except Exception as e:
                    fails.append(dict(name=f'context operation `{op}` runs', error=repr(e)[:200], seq=sidx, step=step))
                    continue
                # every BDD obtained earlier keeps its meaning
                for u, t0 in store:
                    if tt(u) != t0:
                        fails.append(dict(name=f'the meaning of a BDD obtained earlier is unchanged after `{op}`', seq=sidx, step=step, seed=seed))
                        break
                if len(fails) > 4:
                    break
        return dict(records=[], stats=dict(), functions={}, bounded=dict(
            evaluations=n, backend=backend, failures=fails[:6]))
    return run


def copy_isolation(backend):
    """`copy.copy(automaton)` shares the manager but is a separate context:
    operator definitions made afterwards in one do not change the other."""
    def run():
        import copy
        import dd.autoref as autoref
        fails = list()
        n = 0
        exprs = ['x < 2', 'x > 1', r'a /\ (x = 0)', 'TRUE', 'FALSE', '~ a']
        names = ['x', 'a']
        pts = [dict(x=xv, a=av) for xv in range(4) for av in (False, True)]
        sem = {'x < 2': lambda p: p['x'] < 2, 'x > 1': lambda p: p['x'] > 1, r'a /\ (x = 0)': lambda p: p['a'] and p['x'] == 0,
               'TRUE': lambda p: True, 'FALSE': lambda p: False, '~ a': lambda p: not p['a']}
        for e1, e2 in itertools.permutations(exprs, 2):
            for order in (0, 1):
                n += 1
                aut = trl.Automaton()
                if backend == 'autoref':
                    aut.bdd = autoref.BDD()
                aut.declare_variables(x=(0, 3), a='bool')
                aut.define('base == x = 1')
                cp = copy.copy(aut)
                steps = [(aut, e1), (cp, e2)]
                if order:
                    steps.reverse()
                try:
                    for ctx_, e in steps:
                        ctx_.define(f'p == {e}')
                    for ctx_, e, tag in ((aut, e1, 'original'), (cp, e2, 'copy')):
                        for how in ('op_bdd', 'init', 'define'):
                            if how == 'op_bdd':
                                u = ctx_.op_bdd['p']
                                want = [sem[e](p) for p in pts]
                            elif how == 'init':
                                ctx_.init['k'] = 'p'
                                u = ctx_.init['k']
                                want = [sem[e](p) for p in pts]
                            else:
                                ctx_.define(r'q == p \/ a')
                                u = ctx_.op_bdd['q']
                                want = [sem[e](p) or p['a'] for p in pts]
                            got = [ctx_.let(p, u) == ctx_.true for p in pts]
                            if got != want and len(fails) < 6:
                                fails.append(dict(name='an operator defined in an automaton after it was copied means, in that automaton, its own definition',
                                                  where=tag, how=how, original_defines=e1, copy_defines=e2,
                                                  order='copy first' if order else 'original first', backend=backend))
                except Exception as e:
                    if len(fails) < 6:
                        fails.append(dict(name='define / lookup of operators in an automaton and its copy run', error=repr(e)[:200], backend=backend))
        return dict(records=[], stats=dict(), functions={
            'omega.symbolic.temporal.Automaton.__copy__': dict(source_lines=0, cut={}, stubs=[], dropped='run natively: bounded')},
            bounded=dict(evaluations=n, backend=backend, failures=fails[:6]))
    return run


def refused_declaration(backend):
    """A declaration that is refused (ValueError / AssertionError) leaves the
    context exactly as it was: no identifier and no bit of the refused call
    stays behind, and a later legal declaration of the same names works."""
    def run():
        import dd.autoref as autoref
        fails = list()
        n = 0
        cases = [
            (dict(y=(0, 7)), dict(z='bool', y=(3, 15)), dict(z=(0, 3))),          # fresh z + conflicting y
            (dict(y=(0, 7), b='bool'), dict(w=(0, 1), v=(-2, 2), b=(0, 1)), dict(w='bool', v=(0, 1))),
            (dict(x=(0, 2)), dict(q=(0, 3), x_0='bool'), dict(q='bool')),          # fresh q + a name that is a bit of x
        ]
        for ctor in ('Context.declare', 'Automaton.declare_variables', 'Automaton.declare_constants'):
            for first, bad, later in cases:
                n += 1
                c = trl.Automaton() if ctor.startswith('Automaton') else fol.Context()
                if backend == 'autoref':
                    c.bdd = autoref.BDD()
                decl = {'Context.declare': lambda **kw: c.declare(**kw),
                        'Automaton.declare_variables': lambda **kw: c.declare_variables(**kw),
                        'Automaton.declare_constants': lambda **kw: c.declare_constants(**kw)}[ctor]
                decl(**first)
                u = c.add_expr('y > 2' if 'y' in first else 'x = 1')
                before_vars = {k: dict(v) for k, v in c.vars.items()}
                before_bits = set(c.bdd.vars)
                try:
                    decl(**bad)
                    continue          # accepted: nothing to check here
                except (ValueError, AssertionError):
                    pass
                same = ({k: dict(v) for k, v in c.vars.items()} == before_vars and set(c.bdd.vars) == before_bits)
                if not same and len(fails) < 6:
                    fails.append(dict(name='a refused declaration leaves the context unchanged (identifiers and bits)',
                                      how=ctor, declared=str(first), refused=str(bad), backend=backend,
                                      identifiers_after=sorted(c.vars), bits_added=sorted(set(c.bdd.vars) - before_bits)))
                try:
                    decl(**later)
                except (ValueError, AssertionError) as e:
                    if len(fails) < 6:
                        fails.append(dict(name='after a refused declaration the names of that call can still be declared',
                                          how=ctor, refused=str(bad), later=str(later), error=repr(e)[:160], backend=backend))
        return dict(records=[], stats=dict(), functions={}, bounded=dict(evaluations=n, backend=backend, failures=fails[:6]))
    return run
