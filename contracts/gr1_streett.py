"""Sidecar contracts for the Streett(1) solver (C01):
`gr1._attractor_under_assumptions` and `gr1.solve_streett_game`.

What is proved: the returned set is the nested fixpoint

    z == nu Z. /\\_j mu Y. \\/_k nu X. [(h_k /\\ CPre X) \\/ CPre Y \\/ (g_j /\\ CPre Z)]

over the exact CPre of C11 -- for all actions and liveness predicates, with an
unbounded number of iterations at each of the three levels (loops cut).
NOT proved: that this fixpoint is the winning region of the game (theorem T1,
Kesten-Piterman-Pnueli 2005 / Bloem et al. 2012), cited.
In the concrete world the result is compared with an explicit-state
evaluation of the same formula (ovc/explicit.py).
"""
import z3

import omega.games.gr1 as gr1

from ovc import spec, fixghost, explicit
from contracts.fixpoint import (
    set_mode, snapshot, independent_of, cpre_of, step_stub, primed_lists_ok,
    _state_pred_maker, _optional, _syntactic, is_state_pred_syntactic)


def _setup_game(ctx):
    w = ctx.w
    aut = set_mode(ctx)
    E = w.pred('E', w.ACTION)
    S = w.pred('S', w.ACTION)
    aut.action['env'] = E
    aut.action['sys'] = S
    nh, ng = ctx.p['n_holds'], ctx.p['n_goals']
    holds = [w.pred(f'H{k}', w.STATE) for k in range(nh)]
    goals = [w.pred(f'G{j}', w.STATE) for j in range(ng)]
    aut.win['<>[]'] = list(holds)
    aut.win['[]<>'] = list(goals)
    if ctx.p.get('stale_primed_lists'):
        # the solvers are documented to WRITE varlist[env'], varlist[sys']:
        # their pre-state may hold anything, e.g. an earlier partition
        aut.varlist["env'"] = [v + "'" for v in w.shape.sys]
        aut.varlist["sys'"] = [v + "'" for v in w.shape.env]
    return aut, E, S, holds, goals


def trap_stub(ctx, tE, tS, log, after=None):
    """Contract stub of `fixpoint.trap` (C11): returns a fresh state predicate
    constrained by the fixpoint equation; the greatest-schema is available
    through the returned `GfpSet` (passed to `after`)."""
    w = ctx.w
    cpre = cpre_of(ctx)
    cnt = [0]

    def stub(env_action, sys_action, safe, aut, unless=None):
        w.oblige('call trap: requires safe is a state predicate',
                 z3.BoolVal(is_state_pred_syntactic(w, safe)), kind='pre')
        w.oblige('call trap: requires primed variable lists consistent with env / sys lists',
                 z3.BoolVal(primed_lists_ok(aut)), kind='pre')
        w.oblige('call trap: actions are the automaton\'s',
                 z3.BoolVal(env_action is aut.action['env']
                            and sys_action is aut.action['sys']), kind='pre')
        cnt[0] += 1
        x = w.pred(f'trap!{cnt[0]}', w.STATE)
        tun = unless.t if unless is not None else z3.BoolVal(False)
        g = fixghost.GfpSet(w, cpre, tE, tS, safe.t, tun, x.t, log,
                            f'trap!{cnt[0]}')
        w.assume(g.eq_fact())
        if after is not None:
            after(safe, g)
        return x
    return stub


def pair_facts(w, cpre, tE, tS, th, goal_t, yj, xjk, y_node=None):
    r"""Iterate facts for the LAST adjacent pair of the lists built by
    `_attractor_under_assumptions` (all that the loop touches in one round):

      x[-1][k] == (h_k /\ CPre x[-1][k]) \/ CPre(y[-2]) \/ goal      (y[-2] := FALSE for a single entry)
      y[-1]    == y[-2] \/ \/_k x[-1][k]

    The lists are only ever appended to, so by induction on their length the
    facts hold for EVERY adjacent pair (that lifting is a meta-step, not a
    solver obligation)."""
    K = len(th)
    ok = (len(yj) == len(xjk) >= 1 and all(len(xk) == K for xk in xjk))
    out = [('iterates_structure', z3.BoolVal(ok))]
    if not ok:
        return out
    prev = w.term(yj[-2]) if len(yj) >= 2 else z3.BoolVal(False)
    acc = prev
    for k in range(K):
        x = w.term(xjk[-1][k])
        out.append((f'iterates_x{k}_fixpoint_eq', spec.equiv(w, x, z3.Or(
            z3.And(th[k], cpre(tE, tS, x)), cpre(tE, tS, prev), goal_t))))
        acc = z3.Or(acc, x)
    out.append(('iterates_y_is_union', spec.equiv(w, w.term(yj[-1]), acc)))
    if y_node is not None:
        out.append(('iterates_last_is_y', spec.equiv(w, w.term(yj[-1]), w.term(y_node))))
    return out


def _index_is(lst, item):
    for i, v in enumerate(lst):
        if v is item:
            return i
    raise KeyError('not an element of the liveness list')


# ---------------------------------------------------------------------------
# _attractor_under_assumptions

def h_attractor_under_assumptions(ctx):
    w = ctx.w
    aut, E, S, holds, goals = _setup_game(ctx)
    cpre = cpre_of(ctx)
    tE, tS = w.term(E), w.term(S)
    th = [w.term(h) for h in holds]
    goal = w.pred('Goal', w.STATE)
    tgoal = w.term(goal)
    K = len(holds)
    log = list()
    # ---- `least`: arbitrary P closed under G
    P = w.ghost('P', w.STATE)
    B = [fixghost.ghost_gfp(
        w, cpre, tE, tS, th[k],
        z3.Or(cpre(tE, tS, P), tgoal), f'B{k}', log) for k in range(K)]
    hypP = z3.And(*[spec.subset(w, b.X, P) for b in B])
    w.assume(hypP)
    # ---- `prefixed`: arbitrary Q_k
    Q = [w.ghost(f'Q{k}', w.STATE) for k in range(K)]

    def prefixed_hyp(k, ty):
        FQ = z3.Or(z3.And(th[k], cpre(tE, tS, Q[k])), cpre(tE, tS, ty), tgoal)
        return spec.subset(w, Q[k], FQ)

    def after_trap(safe, g):
        k = _index_is(aut.win['<>[]'], safe)
        # proof script: schema instances (all recorded in `log`)
        w.assume(B[k].greatest_at(g.X, f'x_{k}'))
        w.assume(g.greatest_at(Q[k], f'Q{k}'))

    def _havoc_lists(w_, L):
        # the two lists after at least one round: their last adjacent pair
        if L['yold'] is None:
            return
        if w_.run.decide(z3.Bool('single_round_so_far')):
            L['yj'][:] = [L['y']]
            L['xjk'][:] = [[w_.pred(f'xl!{k}', w_.STATE) for k in range(K)]]
        else:
            L['yj'][:] = [L['yold'], L['y']]
            L['xjk'][:] = [[w_.pred(f'xp!{k}', w_.STATE) for k in range(K)],
                           [w_.pred(f'xl!{k}', w_.STATE) for k in range(K)]]

    def inv(L):
        y, yold = L['y'], L['yold']
        ty = w.term(y)
        out = [('typing', _syntactic(w, y, yold)),
               ('y_below_P', spec.subset(w, ty, P))]
        if yold is None:
            out.append(('init', spec.equiv(w, ty, z3.BoolVal(False))))
        else:
            tyo = w.term(yold)
            for k in range(K):
                out.append((f'gfp{k}_of_yold_below_y', z3.Implies(
                    prefixed_hyp(k, tyo), spec.subset(w, Q[k], ty))))
            out += pair_facts(w, cpre, tE, tS, th, tgoal, L['yj'], L['xjk'], y)
            if len(L['yj']) >= 2:
                out.append(('iterates_prev_is_yold', spec.equiv(w, w.term(L['yj'][-2]), tyo)))
            elif len(L['yj']) == 1:
                out.append(('iterates_first_round_started_from_FALSE',
                            spec.equiv(w, tyo, z3.BoolVal(False))))
        return out

    loops = {0: dict(
        vars=dict(y=_state_pred_maker('y!h'),
                  yold=_optional('yold!h', 'yold_is_None'),
                  cox_y=_state_pred_maker('cox_y!h'),
                  unless=_state_pred_maker('unless!h'),
                  xk=lambda w_, L: list(), safe=lambda w_, L: None,
                  x=lambda w_, L: None),
        mutated=dict(lists=_havoc_lists),
        mutated_ok=('xjk', 'yj'),      # the two lists `_havoc_lists` re-creates
        inv=inv)}
    before = snapshot(aut)
    if w.symbolic:
        f = ctx.fn(gr1._attractor_under_assumptions, loops=loops,
                   module_overrides=dict(fx=dict(
                       step=step_stub(ctx),
                       trap=trap_stub(ctx, tE, tS, log, after_trap))))
    else:
        f = gr1._attractor_under_assumptions
    y, yj, xjk = ctx.call(f, goal, aut, label='_attractor_under_assumptions')
    ty = w.term(y)
    if w.symbolic:
        for label, fm in pair_facts(w, cpre, tE, tS, th, tgoal, yj, xjk, y):
            w.oblige(f'_attractor_under_assumptions.post: {label} (last adjacent pair of the recorded iterates; all pairs by induction on the list length)', fm)
        for k in range(K):
            w.oblige(f'_attractor_under_assumptions.post: GFP_{k}(CPre y \\/ goal) <= y   (pre-fixed point)',
                     z3.Implies(prefixed_hyp(k, ty), spec.subset(w, Q[k], ty)))
        w.oblige('_attractor_under_assumptions.post: y below every G-closed P   (least)',
                 spec.subset(w, ty, P), hyps=[hypP])
        w.canary('_attractor_under_assumptions.canary: y == goal',
                 spec.equiv(w, ty, tgoal))
        w.canary('_attractor_under_assumptions.canary: P <= y',
                 spec.subset(w, P, ty), hyps=[hypP])
    else:
        g = _explicit_game(ctx, E, S)
        hs = [w.tt(h, w.groups(w.STATE)) for h in holds]
        tg = w.tt(goal, w.groups(w.STATE))

        def FY(Ys):
            cy = g.cpre(Ys)
            acc = set()
            for h in hs:
                acc |= g.gfp(lambda Xs, h=h: (h & g.cpre(Xs)) | cy | tg)
            return acc
        want = g.lfp(FY)
        got = w.tt(y, w.groups(w.STATE))
        if got != want:
            w.fail('_attractor_under_assumptions.post: y == mu Y. \\/_k nu X. ...',
                   f'explicit-state value differs at {sorted(got ^ want)[:4]}')
        else:
            w.checked.append('_attractor_under_assumptions explicit-state')
    w.oblige('_attractor_under_assumptions.post: y is a state predicate',
             independent_of(w, ty, w.groups(("env'", "sys'"))))
    w.oblige('_attractor_under_assumptions.frame: aut unchanged',
             z3.BoolVal(snapshot(aut) == before), kind='frame')
    ctx.instances = log


def _explicit_game(ctx, E, S):
    w = ctx.w
    nx = len(w.group('env'))
    ny = len(w.group('sys'))
    nc = len(w.group('const'))
    bits = (w.group('env') + w.group('sys') + w.group("env'")
            + w.group("sys'") + w.group('const'))
    return explicit.Game(nx, ny, nc, w.tt(E, bits), w.tt(S, bits),
                         ctx.p['moore'], ctx.p['plus_one'])


# ---------------------------------------------------------------------------
# solve_streett_game

def aua_stub(ctx, tE, tS, th, log, after=None):
    """Contract stub of `_attractor_under_assumptions`."""
    w = ctx.w
    cpre = cpre_of(ctx)
    cnt = [0]

    def stub(goal, aut):
        w.oblige('call _attractor_under_assumptions: requires goal is a state predicate',
                 z3.BoolVal(is_state_pred_syntactic(w, goal)), kind='pre')
        w.oblige('call _attractor_under_assumptions: requires primed variable lists consistent with env / sys lists',
                 z3.BoolVal(primed_lists_ok(aut)), kind='pre')
        cnt[0] += 1
        y = w.pred(f'aua!{cnt[0]}', w.STATE)
        lf = fixghost.LfpSet(w, cpre, tE, tS, th, goal.t, y.t, log,
                             f'aua!{cnt[0]}')
        if after is not None:
            after(cnt[0] - 1, lf)
        # recorded iterates: the last adjacent pair with its facts (contract
        # proved in h_attractor_under_assumptions)
        K = len(th)
        yp = w.pred(f'aua!{cnt[0]}yp', w.STATE)
        xl = [w.pred(f'aua!{cnt[0]}x{k}', w.STATE) for k in range(K)]
        xq = [w.pred(f'aua!{cnt[0]}q{k}', w.STATE) for k in range(K)]
        yj, xjk = [yp, y], [xq, xl]
        for label, fm in pair_facts(w, cpre, tE, tS, th, goal.t, yj, xjk, y):
            w.assume(fm)
        return y, yj, xjk
    return stub


def h_solve_streett_game(ctx):
    w = ctx.w
    aut, E, S, holds, goals = _setup_game(ctx)
    cpre = cpre_of(ctx)
    tE, tS = w.term(E), w.term(S)
    th = [w.term(h) for h in holds]
    tg = [w.term(g) for g in goals]
    K, J = len(holds), len(goals)
    log = list()

    def goal_of(j, Z):
        return z3.And(tg[j], cpre(tE, tS, Z))

    # ---- (b) greatest: arbitrary Q with Q <= LFP_j(Q) for all j
    Qz = w.ghost('Qz', w.STATE)
    Lq = [fixghost.ghost_lfp(w, cpre, tE, tS, th, goal_of(j, Qz), f'L{j}', log)
          for j in range(J)]
    hypQ = z3.And(*[spec.subset(w, Qz, lf.Y) for lf in Lq])
    w.assume(hypQ)
    state = dict(zprev=None, ys=[])

    def after_aua(n, lf):
        j = n % J
        # the z at the start of this iteration of the outer loop
        zprev = state['zprev']
        # (b): L_j <= y_j, by L_j.least at y_j with ghost gfps A_jk
        A = [fixghost.ghost_gfp(
            w, cpre, tE, tS, th[k],
            z3.Or(cpre(tE, tS, lf.Y), goal_of(j, Qz)),
            f'A{j}_{k}', log) for k in range(K)]
        for k in range(K):
            w.assume(lf.prefixed_at(k, A[k].X, f'A{j}_{k}'))
        w.assume(Lq[j].least_at(lf.Y, A, f'y_{j}'))
        # (a): y_j <= M'_j := LFP_j(zprev)
        M = fixghost.ghost_lfp(w, cpre, tE, tS, th, goal_of(j, zprev),
                               f'M{j}!new', log)
        Ap = [fixghost.ghost_gfp(
            w, cpre, tE, tS, th[k],
            z3.Or(cpre(tE, tS, M.Y), goal_of(j, zprev)),
            f'Ap{j}_{k}', log) for k in range(K)]
        for k in range(K):
            w.assume(M.prefixed_at(k, Ap[k].X, f'Ap{j}_{k}'))
        w.assume(lf.least_at(M.Y, Ap, f'M{j}!new'))
        state['ys'].append((j, lf, M))

    def step_hook_stub():
        inner = step_stub(ctx)

        def stub(env_action, sys_action, target, aut_):
            state['zprev'] = target.t
            state['ys'] = list()
            return inner(env_action, sys_action, target, aut_)
        return stub

    ghostM = dict()

    def M_of(zold_t, tag):
        """Ghosts M_j := LFP_j(zold) for the havoc'd zold (cached per term)."""
        key = (zold_t.get_id(), tag)
        if key not in ghostM:
            ghostM[key] = [fixghost.ghost_lfp(
                w, cpre, tE, tS, th, goal_of(j, zold_t), f'M{j}!{tag}', log)
                for j in range(J)]
        return ghostM[key]

    def _havoc_iterates(w_, L):
        # after at least one round the lists hold one entry per goal
        if L['zold'] is not None:
            L['yij'][:] = [[w_.pred('yp!%d' % j, w_.STATE), w_.pred('yh!%d' % j, w_.STATE)]
                           for j in range(J)]
            L['xijk'][:] = [[[w_.pred('xq!%d_%d' % (j, k), w_.STATE) for k in range(K)],
                             [w_.pred('xh!%d_%d' % (j, k), w_.STATE) for k in range(K)]]
                            for j in range(J)]

    def inv(L):
        z, zold = L['z'], L['zold']
        tz = w.term(z)
        out = [('typing', _syntactic(w, z, zold)),
               ('Q_below_z', spec.subset(w, Qz, tz))]
        if zold is not None:
            shape_ok = (len(L['yij']) == len(L['xijk']) == J
                        and all(len(a) == len(b) >= 1 for a, b in zip(L['yij'], L['xijk'])))
            out.append(('iterates_shape', z3.BoolVal(shape_ok)))
            tzo = w.term(zold)
            if shape_ok:
                for j in range(J):
                    for label, fm in pair_facts(w, cpre, tE, tS, th, goal_of(j, tzo),
                                                L['yij'][j], L['xijk'][j]):
                        out.append((f'goal{j}_{label}', fm))
                    out.append((f'goal{j}_z_below_last_iterate',
                                spec.subset(w, tz, w.term(L['yij'][j][-1]))))
            if state['ys'] and state['zprev'] is not None and z3.eq(
                    state['zprev'], tzo):
                # at the back edge: M_j(zold) are the ghosts M'_j just made
                Ms = [M for _, _, M in state['ys']]
                ghostM[(tzo.get_id(), 'head')] = Ms
            Ms = M_of(tzo, 'head')
            for j in range(J):
                out.append((f'z_below_LFP{j}_of_zold',
                            spec.subset(w, tz, Ms[j].Y)))
        return out

    loops = {0: dict(
        vars=dict(z=_state_pred_maker('z!h'),
                  zold=_optional('zold!h', 'zold_is_None'),
                  cox_z=_state_pred_maker('cox_z!h'),
                  goal=lambda w_, L: None, y=lambda w_, L: None,
                  yj=lambda w_, L: None, xjk=lambda w_, L: None,
                  xijk=lambda w_, L: list(), yij=lambda w_, L: list()),
        mutated=dict(iterates=_havoc_iterates),
        inv=inv)}
    before = snapshot(aut)
    if w.symbolic:
        f = ctx.fn(gr1.solve_streett_game, loops=loops,
                   overrides=dict(
                       _attractor_under_assumptions=aua_stub(
                           ctx, tE, tS, th, log, after_aua)),
                   module_overrides=dict(fx=dict(step=step_hook_stub())))
    else:
        f = gr1.solve_streett_game
    z, yij, xijk = ctx.call(f, aut, label='solve_streett_game')
    tz = w.term(z)
    w.oblige('solve_streett_game.post: one list of attractor iterates and one list of trap layers per recurrence predicate, of equal positive lengths',
             z3.BoolVal(len(yij) == len(xijk) == J and all(
                 len(a) == len(b) >= 1 for a, b in zip(yij, xijk))))
    if w.symbolic and len(yij) == len(xijk) == J:
        for j in range(J):
            for label, fm in pair_facts(w, cpre, tE, tS, th, goal_of(j, tz), yij[j], xijk[j]):
                w.oblige(f'solve_streett_game.post: iterates of goal {j}: {label} w.r.t. the returned z (last adjacent pair; all pairs by induction)', fm)
            w.oblige(f'solve_streett_game.post: z <= last attractor iterate of goal {j}',
                     spec.subset(w, tz, w.term(yij[j][-1])))
    if w.symbolic:
        # on this path the loop exited: z == zold.  N_j := LFP_j(z).
        # congruence with M_j = LFP_j(zold) is a true fact (same operator,
        # equal parameter) and is added as such.
        N = [fixghost.ghost_lfp(w, cpre, tE, tS, th, goal_of(j, tz),
                                f'N{j}', log) for j in range(J)]
        for key, Ms in list(ghostM.items()):
            if key[1] == 'head':
                for j in range(J):
                    w.assume(N[j].same_as(Ms[j]))
        for j in range(J):
            w.oblige(f'solve_streett_game.post: z <= LFP_{j}(z)   (z is a post-fixed point of the outer operator)',
                     spec.subset(w, tz, N[j].Y))
        w.oblige('solve_streett_game.post: every Q with Q <= /\\_j LFP_j(Q) is below z   (greatest)',
                 spec.subset(w, Qz, tz), hyps=[hypQ])
        w.canary('solve_streett_game.canary: z == TRUE', w.valid(tz))
        w.canary('solve_streett_game.canary: z <= Q', spec.subset(w, tz, Qz),
                 hyps=[hypQ])
    else:
        g = _explicit_game(ctx, E, S)
        st = w.groups(w.STATE)
        want = g.streett([w.tt(h, st) for h in holds],
                         [w.tt(gl, st) for gl in goals])
        got = w.tt(z, st)
        from contracts import iterates
        iterates.streett(w, g, [w.tt(h, st) for h in holds],
                         [w.tt(gl, st) for gl in goals], z, yij, xijk,
                         lambda u: w.tt(u, st))
        if got != want:
            w.fail('solve_streett_game.post: z == nu Z. /\\_j mu Y. \\/_k nu X. ...',
                   f'explicit-state value differs at {sorted(got ^ want)[:4]} '
                   f'(|got|={len(got)}, |want|={len(want)})')
        else:
            w.checked.append('solve_streett_game explicit-state')
    w.oblige('solve_streett_game.post: z is a state predicate',
             independent_of(w, tz, w.groups(("env'", "sys'"))))
    after = snapshot(aut)
    w.oblige('solve_streett_game.frame: only varlist[env\'], varlist[sys\'] written',
             z3.BoolVal(after[0] == before[0] and after[2] == before[2]
                        and after[3] == before[3] and after[4] == before[4]
                        and {k: v for k, v in after[1].items()
                             if k not in ("env'", "sys'")}
                        == {k: v for k, v in before[1].items()
                            if k not in ("env'", "sys'")}), kind='frame')
    ctx.instances = log


FUNCTIONS = dict(
    _attractor_under_assumptions=h_attractor_under_assumptions,
    solve_streett_game=h_solve_streett_game)
