"""Sidecar contracts for `omega.logic.past` (C15).

Contract of `flatten` for a node (induction hypothesis for its operands):
it returns a formula string `r` and ADDS temporal testers such that for every
sequence of values of the free variables (uninterpreted Int -> Bool, so of any
length) the added init / trans determine the added variables uniquely, and
under that solution [[r]]_i is the anchored past-LTL value of the original
sub-formula at every position i.  Frame: testers present before the call are
unchanged and no key is overwritten with different content.

Operand stubs are non-terminal nodes whose `flatten` returns a fresh identifier
denoting an arbitrary trace (and adds a tester of their own, so that `_aux`
indices are exercised).
"""
import copy

import z3

import omega.logic.past as past

from ovc import cutloops
from ovc import traces

I, B = z3.IntSort(), z3.BoolSort()


def _fn(functions, func, overrides=None):
    f, info = cutloops.extract(func, overrides=overrides)
    info['stubs'] = sorted(overrides or {})
    functions[info['function']] = info
    return f


class StubExpr:
    """A non-terminal operand (induction hypothesis)."""

    def __init__(self, name, adds_tester=True):
        self.name = name
        self.adds = adds_tester
        self.calls = list()
        self.added = None

    def __len__(self):
        return 3

    def flatten(self, testers=None, context=None, *arg, **kw):
        self.calls.append(dict(context=context, kw=dict(kw)))
        if self.adds and testers is not None:
            k = f'_aux{len(testers)}'
            testers[k] = dict(type='bool', init=f'({k} <=> {self.name}in)',
                              trans=f"(({k}') <=> {self.name}in)", win=None)
            self.added = (k, dict(testers[k]))
        return self.name


def _funcs(*names):
    return {n: z3.Function(n, I, B) for n in names}


def _tester_obligations(run, label, d, var, funcs, sem0, sem_step, canary=True):
    """`d` = testers[var]; sem0: expected value at 0; sem_step(n, prev) ->
    expected value at n+1 given the expected value `prev` at n."""
    den = traces.TraceDen(funcs)
    v = funcs[var]
    n = z3.Int('n')
    zero = z3.IntVal(0)
    init0 = den.at(d['init'], zero)
    trans = den.at(d['trans'], n)
    b, b1, sm = z3.Bools('b b1 sm')
    T, F = z3.BoolVal(True), z3.BoolVal(False)
    i_t = z3.substitute(init0, (v(zero), T))
    i_f = z3.substitute(init0, (v(zero), F))
    run.oblige(f'{label}: init determines the tester variable at position 0 (exactly one value)',
               z3.Xor(i_t, i_f))
    tr = z3.substitute(trans, (v(n), b))
    t_t = z3.substitute(tr, (v(n + 1), T))
    t_f = z3.substitute(tr, (v(n + 1), F))
    run.oblige(f'{label}: trans determines the next value of the tester variable (exactly one, whatever the current value)',
               z3.Implies(n >= 0, z3.Xor(t_t, t_f)))
    run.oblige(f'{label}: value at position 0 is the anchored semantics',
               z3.Implies(init0, v(zero) == sem0))
    run.oblige(f'{label}: value at n+1 is the anchored semantics (induction step over positions)',
               z3.Implies(z3.And(n >= 0, trans, v(n) == sm),
                          v(n + 1) == sem_step(n, sm)))
    run.canary(f'{label} canary{"" if canary else "(info)"}: tester variable constantly TRUE',
               z3.Implies(z3.And(n >= 0, trans, init0), v(n + 1)))


def _frame(run, label, before, testers, operands=()):
    same = all(k in testers and testers[k] == v for k, v in before.items())
    # testers added by the operands (induction hypothesis) must survive too
    for o in operands:
        if getattr(o, 'added', None) is not None:
            k, v = o.added
            same = same and testers.get(k) == v
    run.oblige(f'{label}.frame: testers present before the call are unchanged (no key overwritten with different content)',
               z3.BoolVal(same), kind='frame')


PRE_STATES = {
    'empty': {},
    'other': {'_aux0': dict(type='bool', init='(_aux0 <=> zz)',
                            trans="((_aux0') <=> zz)", win=None),
              'zz_prev1': dict(type='bool', init='zz_prev1',
                               trans="((zz_prev1') <=> zz)", win=None)},
}


def h_since(pre, until=False):
    def h(run, functions):
        P, Q = StubExpr('opP'), StubExpr('opQ')
        testers = copy.deepcopy(PRE_STATES[pre])
        before = copy.deepcopy(testers)
        f = _fn(functions, past._flatten_since)
        r = f((P, Q), testers, 'bool', until=until)
        _frame(run, '_flatten_since', before, testers, (P, Q))
        run.oblige('_flatten_since: returns a fresh tester variable; operands flattened in Boolean context with the same testers',
                   z3.BoolVal(r in testers and r not in before
                              and all(c['context'] == 'bool' for c in P.calls + Q.calls)
                              and len(P.calls) == 1 and len(Q.calls) == 1))
        if r not in testers:
            return
        fs = _funcs('opP', 'opQ', r)
        p, q = fs['opP'], fs['opQ']
        _tester_obligations(
            run, '_flatten_since (p S q)', testers[r], r, fs,
            sem0=q(z3.IntVal(0)),
            sem_step=lambda n, prev: z3.Or(q(n + 1), z3.And(p(n + 1), prev)))
    return h


def h_since_const(left, right):
    """`p S q` where an operand is a Boolean constant (terminal node)."""
    def h(run, functions):
        def mk(c, name):
            return past.Nodes.Bool(c) if c else StubExpr(name, False)
        P, Q = mk(left, 'opP'), mk(right, 'opQ')
        testers = dict()
        f = _fn(functions, past._flatten_since)
        r = f((P, Q), testers, 'bool')
        run.oblige('_flatten_since (constant operand): returns a tester variable',
                   z3.BoolVal(r in testers))
        if r not in testers:
            return
        fs = _funcs('opP', 'opQ', r)

        def val(c, fn, n):
            return z3.BoolVal(c == 'TRUE') if c else fn(n)
        p = lambda n: val(left, fs['opP'], n)
        q = lambda n: val(right, fs['opQ'], n)
        _tester_obligations(
            run, f'_flatten_since ({left or "p"} S {right or "q"})', testers[r], r, fs,
            sem0=q(z3.IntVal(0)),
            sem_step=lambda n, prev: z3.Or(q(n + 1), z3.And(p(n + 1), prev)),
            canary=False)
    return h


def h_semantics_lemmas():
    """The recursive characterisations used above are equivalent to the
    quantified definitions of the anchored semantics."""
    def h(run, functions):
        p, q = z3.Function('p', I, B), z3.Function('q', I, B)
        S, H, O = (z3.Function(x, I, B) for x in 'SHO')
        i, j, k, n = z3.Ints('i j k n')
        defS = z3.ForAll([i], z3.Implies(i >= 0, S(i) == z3.Exists([j], z3.And(
            0 <= j, j <= i, q(j),
            z3.ForAll([k], z3.Implies(z3.And(j < k, k <= i), p(k)))))))
        defH = z3.ForAll([i], z3.Implies(i >= 0, H(i) == z3.ForAll(
            [j], z3.Implies(z3.And(0 <= j, j <= i), p(j)))))
        defO = z3.ForAll([i], z3.Implies(i >= 0, O(i) == z3.Exists(
            [j], z3.And(0 <= j, j <= i, p(j)))))
        run.oblige('semantics lemma: (p S q) at 0 <=> q at 0', S(0) == q(0),
                   extra=[defS])
        run.oblige('semantics lemma: (p S q) at n+1 <=> q(n+1) \\/ (p(n+1) /\\ (p S q) at n)',
                   z3.Implies(n >= 0, S(n + 1) == z3.Or(q(n + 1), z3.And(p(n + 1), S(n)))),
                   extra=[defS])
        run.oblige('semantics lemma: historically at 0 / n+1',
                   z3.And(H(0) == p(0), z3.Implies(n >= 0, H(n + 1) == z3.And(p(n + 1), H(n)))),
                   extra=[defH])
        run.oblige('semantics lemma: once at 0 / n+1',
                   z3.And(O(0) == p(0), z3.Implies(n >= 0, O(n + 1) == z3.Or(p(n + 1), O(n)))),
                   extra=[defO])
        run.oblige('semantics lemma: historically p <=> ~ (TRUE S ~ p); once p <=> TRUE S p',
                   z3.Implies(n >= 0, z3.And(
                       H(n) == z3.Not(z3.Exists([j], z3.And(0 <= j, j <= n, z3.Not(p(j))))),
                       O(n) == z3.Exists([j], z3.And(0 <= j, j <= n, p(j), z3.ForAll(
                           [k], z3.Implies(z3.And(j < k, k <= n), True)))))),
                   extra=[defH, defO])
        run.canary('semantics canary', S(0), extra=[defS])
    return h


def h_previous_expr(strong, pre, until=False):
    """`-X` / `--X` applied to a non-terminal operand."""
    op = '--X' if strong else '-X'

    def h(run, functions):
        X = StubExpr('opX')
        testers = copy.deepcopy(PRE_STATES[pre])
        before = copy.deepcopy(testers)
        f = _fn(functions, past._flatten_previous)
        r = f(op, X, testers, 'bool', until=until)
        _frame(run, '_flatten_previous', before, testers, (X,))
        run.oblige('_flatten_previous: returns a fresh tester variable',
                   z3.BoolVal(r in testers and r not in before))
        if r not in testers:
            return
        fs = _funcs('opX', r)
        x = fs['opX']
        _tester_obligations(
            run, f'_flatten_previous ({op} expr)', testers[r], r, fs,
            sem0=z3.BoolVal(not strong),
            sem_step=lambda n, prev: x(n))
    return h


def _weak(v):
    return dict(type='bool', init=f'{v}_prev1',
                trans=f"(({v}_prev1') <=> {v})", win=None)


def _strong(v):
    return dict(type='bool', init=f'(~ {v}_prev1)',
                trans=f"(({v}_prev1') <=> {v})", win=None)


def h_previous_var(strong, pre_kind):
    """`-X p` / `--X p` on a variable, with the tester dictionary in every
    well-formed pre-state for the key the implementation may choose:
    absent / weak tester of p present / strong tester of p present."""
    op = '--X' if strong else '-X'

    def h(run, functions):
        testers = copy.deepcopy(PRE_STATES['other'])
        if pre_kind == 'weak':
            testers['p_prev1'] = _weak('p')
        elif pre_kind == 'strong':
            testers['p_prev1'] = _strong('p')
        before = copy.deepcopy(testers)
        node = past.Nodes.Unary(op, past.Nodes.Var('p'))
        f = _fn(functions, past.Nodes.Unary.flatten)
        r = f(node, testers=testers, context='bool')
        _frame(run, f'Unary.flatten({op} p) [pre-state: {pre_kind} tester of p]',
               before, testers)
        run.oblige(f'{op} p: returns a tester variable', z3.BoolVal(r in testers))
        if r not in testers:
            return
        fs = _funcs('p', r)
        p = fs['p']
        _tester_obligations(
            run, f'previous of a variable ({op} p) [pre-state: {pre_kind}]',
            testers[r], r, fs,
            sem0=z3.BoolVal(not strong),
            sem_step=lambda n, prev: p(n))
    return h


def h_previous_const(strong, const):
    """`-X TRUE`, `--X TRUE`, `-X FALSE`, `--X FALSE`."""
    op = '--X' if strong else '-X'

    def h(run, functions):
        testers = dict()
        node = past.Nodes.Unary(op, past.Nodes.Bool(const))
        f = _fn(functions, past.Nodes.Unary.flatten)
        try:
            r = f(node, testers=testers, context='bool')
        except Exception as e:
            run.refusal(f'{op} {const}: translation of a documented formula is accepted', e, False)
            return
        names = [k for k in testers]
        fs = _funcs(*names) if names else dict()
        den = traces.TraceDen(fs)
        n = z3.Int('n')
        cval = z3.BoolVal(const.upper() == 'TRUE')
        zero = z3.IntVal(0)
        hyp0 = [den.at(d['init'], zero) for d in testers.values()]
        hypn = [den.at(d['trans'], n) for d in testers.values()]
        run.oblige(f'{op} {const}: value at position 0 is {not strong}',
                   z3.Implies(z3.And(*hyp0) if hyp0 else z3.BoolVal(True),
                              den.at(r, zero) == z3.BoolVal(not strong)))
        run.oblige(f'{op} {const}: value at n+1 is {const.upper()}',
                   z3.Implies(z3.And(n >= 0, *hypn), den.at(r, n + 1) == cval))
        for k, d in testers.items():
            _tester_obligations(run, f'{op} {const} tester {k}', d, k, fs,
                                sem0=z3.BoolVal(not strong),
                                sem_step=lambda n_, prev: cval, canary=False)
    return h


def h_hist_once(op, pre, until=False):
    """`-[] x` and `-<> x`."""
    def h(run, functions):
        X = StubExpr('opX', adds_tester=False)
        testers = copy.deepcopy(PRE_STATES[pre])
        before = copy.deepcopy(testers)
        # the operand of -[] is wrapped into a negation node by the code
        node = past.Nodes.Unary(op, X)
        f = _fn(functions, past.Nodes.Unary.flatten)
        r = f(node, testers=testers, context='bool', until=until)
        _frame(run, f'Unary.flatten({op})', before, testers)
        new = [k for k in testers if k not in before]
        run.oblige(f'{op}: exactly one tester added', z3.BoolVal(len(new) == 1))
        if len(new) != 1:
            return
        k = new[0]
        fs = _funcs('opX', k)
        x = fs['opX']
        den = traces.TraceDen(fs)
        n = z3.Int('n')
        v = fs[k]
        if op == '-[]':
            # tester tracks once(~x); result is its negation
            _tester_obligations(
                run, '-[] x: tester for TRUE S ~x', testers[k], k, fs,
                sem0=z3.Not(x(z3.IntVal(0))),
                sem_step=lambda n_, prev: z3.Or(z3.Not(x(n_ + 1)), prev))
            run.oblige('-[] x: result denotes the negation of the tester variable',
                       den.at(r, n) == z3.Not(v(n)))
        else:
            _tester_obligations(
                run, '-<> x: tester for TRUE S x', testers[k], k, fs,
                sem0=x(z3.IntVal(0)),
                sem_step=lambda n_, prev: z3.Or(x(n_ + 1), prev))
            run.oblige('-<> x: result denotes the tester variable',
                       den.at(r, n) == v(n))
    return h


def h_until(kind):
    """until=True: prophecy testers (safety half only; the liveness half --
    every fair solution equals the until semantics -- is ASSUMED)."""
    def h(run, functions):
        P, Q = StubExpr('opP', False), StubExpr('opQ', False)
        testers = dict()
        if kind == 'U':
            node = past.Nodes.Binary('U', P, Q)
            f = _fn(functions, past.Nodes.Binary.flatten)
        else:
            node = past.Nodes.Unary(kind, Q)
            f = _fn(functions, past.Nodes.Unary.flatten)
        r = f(node, testers=testers, context='bool', until=True)
        run.oblige(f'{kind} (until=True): exactly one tester added',
                   z3.BoolVal(len(testers) == 1))
        if len(testers) != 1:
            return
        k = list(testers)[0]
        fs = _funcs('opP', 'opQ', k)
        den = traces.TraceDen(fs)
        p, q, v = fs['opP'], fs['opQ'], fs[k]
        n = z3.Int('n')
        d = testers[k]
        if kind == 'U':
            pp, qq = p(n), q(n)
        elif kind == '<>':
            pp, qq = z3.BoolVal(True), q(n)
        else:    # [] q = ~ (TRUE U ~ q)
            pp, qq = z3.BoolVal(True), z3.Not(q(n))
        run.oblige(f'{kind}: trans is the expansion law  v <=> q \\/ (p /\\ v\')',
                   den.at(d['trans'], n) == (v(n) == z3.Or(qq, z3.And(pp, v(n + 1)))))
        run.oblige(f'{kind}: win is  q \\/ ~v  and init is TRUE',
                   z3.And(den.at(d['win'], n) == z3.Or(qq, z3.Not(v(n))),
                          den.at(d['init'], z3.IntVal(0))))
        want = z3.Not(v(n)) if kind == '[]' else v(n)
        run.oblige(f'{kind}: result denotes the tester variable (negated for [])',
                   den.at(r, n) == want)
        run.canary(f'{kind} canary', v(n))
    return h


def h_passthrough():
    """Connectives, negation, ite: flattened structurally; meaning preserved."""
    def h(run, functions):
        P, Q, G = (StubExpr(x, False) for x in ('opP', 'opQ', 'opG'))
        fs = _funcs('opP', 'opQ', 'opG')
        den = traces.TraceDen(fs)
        n = z3.Int('n')
        p, q, g = (fs[x](n) for x in ('opP', 'opQ', 'opG'))
        bf = _fn(functions, past.Nodes.Binary.flatten)
        for op, sem in (('/\\', z3.And(p, q)), (r'\/', z3.Or(p, q)),
                        ('=>', z3.Implies(p, q)), ('<=>', p == q),
                        ('^', z3.Xor(p, q))):
            t = dict()
            r = bf(past.Nodes.Binary(op, P, Q), testers=t, context='bool')
            run.oblige(f'Binary.flatten({op}): meaning preserved, no tester added',
                       z3.And(z3.BoolVal(not t), den.at(r, n) == sem))
        uf = _fn(functions, past.Nodes.Unary.flatten)
        t = dict()
        r = uf(past.Nodes.Unary('~', P), testers=t, context='bool')
        run.oblige('Unary.flatten(~): meaning preserved',
                   z3.And(z3.BoolVal(not t), den.at(r, n) == z3.Not(p)))
        of = _fn(functions, past.Nodes.Operator.flatten)
        r = of(past.Nodes.Operator('ite', G, P, Q), testers=t, context='bool')
        run.oblige('Operator.flatten(ite): meaning preserved',
                   den.at(r, n) == z3.If(g, p, q))
        run.canary('passthrough canary', p)
    return h


# ---------------------------------------------------------------------------
# end-to-end, bounded in the trace length (all traces of that length)

E2E_UNTIL = ['-[] p', '-<> p', 'p S q', '-X p', '--X q', r'-[] (p => -<> q)', r'(-X false) \/ -<> (p S q)']

# previous applied to a next-state operand and the other way round (the trace
# of length L + 1 gives the value read by the next operator at position L - 1)
E2E_NEXT = ["-X (p')", "--X (p')", "-X (X p)", "(-X p)'", "(--X p)'", r"(-X (p' /\ q))", r"(p S (q'))", "-[] (p')", r"-<> (X q) /\ --X (q')"]

E2E = [
    '-X false', '-X False', '--X true', '--X True', '-X true', '--X false',
    r'(-X false) /\ p', 'false S p', 'p S True',
    '-X p', '--X p', r'(-X p) /\ (--X p)', r'(--X p) \/ (-X p)',
    '-X -X p', '--X --X p', '-X --X p', r'-X (p /\ q)', r'--X (p \/ ~ q)',
    'p S q', r'(p S q) S (-X q)', r'(-X p) S (--X q)', '-[] p', '-<> p',
    r'-[] (p => -<> q)', r'-<> (-[] p)', r'~ (p S ~ q) /\ -X (q S p)',
    '--X TRUE', '-X FALSE', '-X TRUE', '--X FALSE', r'(-X q) /\ (--X p) /\ (-X p)',
    r'-[] -X p', r'(p S q) <=> -<> q', r'p /\ q',
]


def generated_formulas(tier):
    """All formulas up to nesting depth 2 over p, q, TRUE, FALSE (unary past
    operators and negation over every depth-1 formula; S / conjunction with an
    atom on one side)."""
    atoms = ['p', 'q', 'TRUE', 'FALSE']
    un = ['~', '-X', '--X', '-[]', '-<>']
    d1 = list(atoms)
    for o in un:
        d1 += [f'{o} {a}' for a in atoms]
    for a in atoms:
        for b in atoms:
            d1 += [f'({a} S {b})']
    for a, b in (('p', 'q'), ('p', 'TRUE'), ('FALSE', 'q')):
        d1 += [rf'({a} /\ {b})', rf'({a} \/ {b})']
    out = list(d1)
    for o in un:
        out += [f'{o} ({x})' for x in d1 if x not in atoms]
    for x in d1:
        if x in atoms:
            continue
        for a in (('p', 'FALSE') if tier == 'quick' else atoms):
            out += [f'(({x}) S {a})', f'({a} S ({x}))']
        out += [rf'(({x}) /\ -X p)', rf'(({x}) \/ --X p)']
    return sorted(set(out))


def _translate_via(entry, formula, until):
    """The translation through the public entry points: `translate` (plain and
    with debug=True: repeatable ordering, same meaning), `map_translate` on a
    container in which another formula occurs twice, and a second `flatten` of
    the same parsed tree (a tree is only read by `flatten`)."""
    if entry == 'translate':
        return past.translate(formula, until=until)
    if entry == 'debug':
        return past.translate(formula, until=until, debug=True)
    if entry == 'map':
        other = '(-X q)' if formula.strip() != '(-X q)' else '(--X p)'
        c = [other, formula, other, 'p']
        dvars, f, init, action, win = past.map_translate(c, until=until)
        if not (len(f) == len(init) == len(action) == len(c)):
            raise AssertionError(f'map_translate: {len(c)} formulas in, {len(f)} translated formulas, '
                                 f'{len(init)} initial conditions, {len(action)} actions out')
        return dvars, f[1], past.conj(init), past.conj(action), win
    assert entry == 'reflatten', entry
    tree = past.parser.parse(formula)
    tree.flatten(testers=dict(), context='bool', until=until)
    testers = dict()
    r = tree.flatten(testers=testers, context='bool', until=until)
    init = past.conj(d['init'] for d in testers.values())
    trans = past.conj(d['trans'] for d in testers.values())
    dvars = {k: dict(type=d['type'], dom=d.get('dom'), owner='sys') for k, d in testers.items()}
    return dvars, r, init, trans, [d['win'] for d in testers.values() if d['win'] is not None]


ENTRIES = ('translate', 'debug', 'map', 'reflatten')


def h_translate_e2e(formula, L, until=False, entry='translate'):
    def run_():
        import itertools
        try:
            dvars, r, init, trans, win = _translate_via(entry, formula, until)
        except AssertionError as e:
            return dict(records=[], stats=dict(), functions={
                'omega.logic.past.translate': dict(source_lines=0, cut={}, dropped='run natively: bounded', stubs=[])},
                bounded=dict(evaluations=1, formula=formula, failures=[dict(
                    name=f'translation of "{formula}" through entry point `{entry}` returns one translated formula, initial condition and action per given formula',
                    error=repr(e)[:300])]))
        names = ['p', 'q'] + list(dvars)
        vals = {nm: [z3.Bool(f'{nm}@{i}') for i in range(L + 3)]
                for nm in names}

        class F:
            def __init__(self, nm):
                self.nm = nm

            def __call__(self, n):
                n = z3.simplify(n)
                return vals[self.nm][n.as_long()]
        den = traces.TraceDen({nm: F(nm) for nm in names})
        facts = [den.at(init, z3.IntVal(0))]
        for i in range(L):
            facts.append(den.at(trans, z3.IntVal(i)))
        sem = traces.PastSem(vals, L)
        from ovc import engine as eng
        fails = list()
        n_eval = 0
        # existence + uniqueness of the solution for the added variables, and
        # agreement with the anchored semantics at every position < L
        aux = [vals[nm][i] for nm in dvars for i in range(L)]
        for i in range(L):
            n_eval += 1
            goal = den.at(r, z3.IntVal(i)) == sem.at(formula, i)
            st, model, dt, be = eng.check_sat(facts + [z3.Not(goal)])
            if st != 'unsat':
                w = None
                if model is not None:
                    w = {nm: [z3.is_true(model.eval(vals[nm][k], model_completion=True))
                              for k in range(L)] for nm in ('p', 'q')}
                fails.append(dict(
                    name=f'translate("{formula}"): translated formula agrees with the anchored semantics at position {i}' + (f' [entry point: {entry}]' if entry != 'translate' else ''),
                    status=st, trace=w))
        # a solution exists for every input trace
        n_eval += 1
        inputs = [vals[nm][i] for nm in ('p', 'q') for i in range(L + 3)]
        last = [vals[nm][k] for nm in dvars for k in range(L, L + 3)]
        ex = z3.ForAll(inputs, z3.Exists(aux + last, z3.And(*facts))) \
            if (aux + last) else z3.And(*facts)
        st, _, _, _ = eng.check_sat([z3.Not(ex)])
        if st != 'unsat':
            fails.append(dict(name=f'translate("{formula}"): testers have a solution on every trace' + (f' [entry point: {entry}]' if entry != 'translate' else ''), status=st))
        return dict(records=[], stats=dict(), functions={
            'omega.logic.past.translate': dict(source_lines=0, cut={}, dropped='run natively, whole pipeline incl. PLY parser: bounded in trace length', stubs=[])},
            bounded=dict(evaluations=n_eval, trace_length=L, formula=formula,
                         failures=fails))
    return run_


# ---------------------------------------------------------------------------
# formulas that mix past and future operators (until=True): on a finite prefix
# the until-testers guess the future (several solutions), the PAST testers are
# still functions of the prefix

E2E_MIXED = [
    r'(p U q) /\ (-X q)', r'([] p) \/ (--X q)', r'(<> q) /\ (-[] p)', r'(p U (-<> q))', r'[] (p => -<> q)',
    r'(p S q) /\ <> p', r'[] ((-X p) => <> q)', r'((p U q) U (-X p)) /\ (q S p)',
    r'<> [] (-X p)', r'(<> q) \/ --X p',
]       # past operators are applied to past / propositional operands only (a past
        # operator over a future one inherits the until-tester's guess)


def h_translate_mixed(formula, L):
    def run_():
        import re as _re
        dvars, r, init, trans, win = past.translate(formula, until=True)
        names = ['p', 'q'] + list(dvars)
        win_text = ' '.join(win) if isinstance(win, (list, tuple)) else str(win)
        future = {nm for nm in dvars if _re.search(r'(?<![A-Za-z0-9_])' + _re.escape(nm) + r'(?![A-Za-z0-9_])', win_text)}
        pastv = [nm for nm in dvars if nm not in future]
        fails = list()
        n_eval = 0

        def mk(tag):
            vals = {nm: [z3.Bool(f'{nm}@{i}' if nm in ('p', 'q') else f'{nm}@{i}{tag}') for i in range(L + 1)]
                    for nm in names}

            class F:
                def __init__(self, nm):
                    self.nm = nm

                def __call__(self, n):
                    return vals[self.nm][z3.simplify(n).as_long()]
            den = traces.TraceDen({nm: F(nm) for nm in names})
            facts = [den.at(init, z3.IntVal(0))] + [den.at(trans, z3.IntVal(i)) for i in range(L)]
            return vals, facts
        v1, f1 = mk('')
        v2, f2 = mk('!2')
        from ovc import engine as eng
        if pastv:
            n_eval += 1
            differ = z3.Or(*[v1[nm][i] != v2[nm][i] for nm in pastv for i in range(L)])
            st, model, _, _ = eng.check_sat(f1 + f2 + [differ])
            if st != 'unsat':
                tr = None
                if model is not None:
                    tr = {nm: [z3.is_true(model.eval(v1[nm][k], model_completion=True)) for k in range(L)] for nm in ('p', 'q')}
                fails.append(dict(name=f'translate("{formula}", until=True): the testers of the PAST operators have exactly one solution along every finite prefix (whatever the until-testers guess)',
                                  status=st, trace=tr, past_testers=pastv, init=str(init)[:200]))
        n_eval += 1
        inputs = [v1[nm][i] for nm in ('p', 'q') for i in range(L + 1)]
        aux = [v1[nm][i] for nm in dvars for i in range(L + 1)]
        ex = z3.ForAll(inputs, z3.Exists(aux, z3.And(*f1))) if aux else z3.And(*f1)
        st, _, _, _ = eng.check_sat([z3.Not(ex)])
        if st != 'unsat':
            fails.append(dict(name=f'translate("{formula}", until=True): initial condition and transition relation have a solution on every finite prefix', status=st))
        return dict(records=[], stats=dict(), functions={
            'omega.logic.past.translate': dict(source_lines=0, cut={}, dropped='run natively, whole pipeline: bounded in trace length', stubs=[])},
            bounded=dict(evaluations=n_eval, trace_length=L, formula=formula, past_testers=pastv, until_testers=sorted(future), failures=fails))
    return run_


def h_debug_same(formula, until):
    """`debug=True` only fixes the order of the conjuncts: same added variables,
    same translated formula, equivalent initial condition and transition
    relation, same recurrence goals."""
    def run_():
        from ovc import engine as eng
        a = past.translate(formula, until=until)
        b = past.translate(formula, until=until, debug=True)
        fails = list()
        names = sorted(set(['p', 'q']) | set(a[0]) | set(b[0]))
        vals = {nm: [z3.Bool(f'{nm}@{i}') for i in range(3)] for nm in names}

        class F:
            def __init__(self, nm):
                self.nm = nm

            def __call__(self, n):
                return vals[self.nm][z3.simplify(n).as_long()]
        den = traces.TraceDen({nm: F(nm) for nm in names})
        same = (sorted(a[0]) == sorted(b[0]) and a[1] == b[1] and sorted(map(str, a[4])) == sorted(map(str, b[4])))
        why = None
        if not same:
            why = 'added variables, translated formula or recurrence goals differ'
        else:
            for what, k in (('initial condition', 2), ('transition relation', 3)):
                st, _, _, _ = eng.check_sat([den.at(a[k], z3.IntVal(0)) != den.at(b[k], z3.IntVal(0))])
                if st != 'unsat':
                    why = f'{what} not equivalent ({st})'
                    break
        if why:
            fails.append(dict(name=f'translate("{formula}", until={until}): debug=True changes only the order of the conjuncts',
                              difference=why, plain=str(a[1:4])[:300], debug=str(b[1:4])[:300]))
        return dict(records=[], stats=dict(), functions={
            'omega.logic.past.translate': dict(source_lines=0, cut={}, dropped='run natively: bounded', stubs=[])},
            bounded=dict(evaluations=1, formula=formula, failures=fails))
    return run_


def h_conj_disj():
    """`omega.logic.syntax.conj` / `disj` (used to join the testers' initial
    conditions and transition relations): the result denotes the conjunction /
    disjunction of the operands, for operand lists that contain the literals
    TRUE / FALSE (complete for lists of length <= 3 over four operands)."""
    def run_():
        import itertools
        import omega.logic.syntax as stx
        import omega.logic.lexyacc as lexyacc
        parser = lexyacc.Parser()
        P, Q = z3.Bool('p'), z3.Bool('q')
        val = {'TRUE': z3.BoolVal(True), 'FALSE': z3.BoolVal(False), 'p': P, '(~ q)': z3.Not(Q)}

        def den(t):
            if hasattr(t, 'operator'):
                xs = [den(x) for x in t.operands]
                op = t.operator
                if op == '~':
                    return z3.Not(xs[0])
                if op == '/\\':
                    return z3.And(*xs)
                if op == '\\/':
                    return z3.Or(*xs)
                raise ValueError(op)
            v = t.value
            return {'TRUE': z3.BoolVal(True), 'FALSE': z3.BoolVal(False), 'p': P, 'q': Q}[v]
        fails = list()
        n = 0
        from ovc import engine as eng
        for k in range(0, 4):
            for ops in itertools.product(sorted(val), repeat=k):
                for fname, f, comb, unit in (('conj', stx.conj, z3.And, True), ('disj', stx.disj, z3.Or, False)):
                    n += 1
                    try:
                        s = f(list(ops))
                        got = den(parser.parse(s))
                    except Exception as e:
                        fails.append(dict(name=f'syntax.{fname} returns a formula', operands=list(ops), error=repr(e)[:120]))
                        continue
                    want = comb(*[val[o] for o in ops]) if ops else z3.BoolVal(unit)
                    st, _, _, _ = eng.check_sat([got != want])
                    if st != 'unsat' and len(fails) < 6:
                        fails.append(dict(name=f'syntax.{fname}(operands) denotes the {"conjunction" if unit else "disjunction"} of the operands (also with TRUE / FALSE among them)',
                                          operands=list(ops), result=s))
        return dict(records=[], stats=dict(), functions={
            'omega.logic.syntax.conj': dict(source_lines=0, cut={}, stubs=[], dropped='run natively: complete for lists of length <= 3 over {TRUE, FALSE, p, (~ q)}'),
            'omega.logic.syntax.disj': dict(source_lines=0, cut={}, stubs=[], dropped='same')},
            bounded=dict(evaluations=n, exhaustive='operand lists of length <= 3 over {TRUE, FALSE, p, (~ q)}', failures=fails))
    return run_
