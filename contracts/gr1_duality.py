"""Fixpoint duality lemma over the two solver contracts (C04, second sentence).

Given
  * the contract of `solve_streett_game` (C01):  zs is the greatest fixpoint of
    Z -> /\\_j LFP_j(Z),  LFP_j(Z) = mu Y. \\/_k nu X.(h_k /\\ CPre X) \\/ CPre Y \\/ (g_j /\\ CPre Z)
  * the contract of `solve_rabin_game` (C04) for the DUAL game (players' roles
    swapped, Moore <-> Mealy, strict <-> non-strict, Rabin persistence
    predicates ~g_j, Rabin recurrence predicates ~h_k):  zr is the least fixpoint
    of Z -> \\/_j CYC_j(Z),  CYC_j(Z) = nu Y. /\\_k mu X.(CPre' X \\/ ~h_k) /\\ CPre' Y /\\ (CPre' Z \\/ ~g_j)
  * CPre duality  CPre'(Q) == ~CPre(~Q)  (proved on the real `fixpoint.step` in
    `gr1_rabin.h_cpre_duality`; re-proved here for the two specification terms),
the two regions are complementary:  zr == ~zs.

No code of `omega` runs here: this is a lemma over contracts, discharged by z3
from ghost fixpoint sets and explicit instances of their extremal schemas (all
instances are listed in the evidence through `ctx.instances`).
"""
import z3

from ovc import spec, fixghost
from contracts.fixpoint import set_mode


def h_duality(ctx):
    w = ctx.w
    aut = set_mode(ctx)
    moore, plus_one = ctx.p['moore'], ctx.p['plus_one']
    K, J = ctx.p['n_holds'], ctx.p['n_goals']
    E = w.pred('E', w.ACTION)
    S = w.pred('S', w.ACTION)
    tE, tS = w.term(E), w.term(S)
    th = [w.term(w.pred(f'H{k}', w.STATE)) for k in range(K)]
    tg = [w.term(w.pred(f'G{j}', w.STATE)) for j in range(J)]
    log = list()

    def cpre(e, s, T):
        return spec.cpre(w, e, s, T, moore, plus_one)

    # the dual game's controllable predecessor: roles swapped, modes flipped
    class Dual:
        shape = w.shape

        def group(self, g):
            return w.group({'env': 'sys', 'sys': 'env', "env'": "sys'", "sys'": "env'"}.get(g, g))

        def zs(self, bits):
            return w.zs(bits)

        def prime_map(self, groups=('env', 'sys')):
            return w.prime_map()
    dual = Dual()

    def cpre_r(e, s, T):
        # in the dual game the environment's action is S and the component's is E
        return spec.cpre(dual, tS, tE, T, not moore, not plus_one)

    Qp = w.ghost('Qp', w.STATE)
    w.oblige('CPre duality of the specification terms: CPre_dual(Q) == ~CPre(~Q)',
             spec.equiv(w, cpre_r(None, None, Qp), z3.Not(cpre(tE, tS, z3.Not(Qp)))))

    def cpre_d(e, s, T):
        return z3.Not(cpre(tE, tS, z3.Not(T)))
    nh = [z3.Not(h) for h in th]       # Rabin recurrence predicates
    ng = [z3.Not(g) for g in tg]       # Rabin persistence predicates
    zs = w.ghost('Zs', w.STATE)        # denotes the Streett region
    zr = w.ghost('Zr', w.STATE)        # denotes the Rabin region of the dual game

    def goal_of(j, Z):
        return z3.And(tg[j], cpre(tE, tS, Z))

    def g_of(j, Z):
        return z3.Or(cpre_d(None, None, Z), ng[j])

    # ======== zr <= ~zs : Rabin-least at P = ~zs
    P = z3.Not(zs)
    facts = list()
    for j in range(J):
        # C_j := CYC_j(~zs),  N_j := LFP_j(zs)
        C = fixghost.ghost_cyc(w, cpre_d, None, None, nh, g_of(j, P), f'C{j}', log)
        N = fixghost.ghost_lfp(w, cpre, tE, tS, th, goal_of(j, zs), f'N{j}', log)
        # Streett contract (a): zs <= LFP_j(zs)
        facts.append(spec.subset(w, zs, N.Y))
        log.append(f'streett.postfixed[{j}]')
        # N_j <= ~C_j by N_j.least at ~C_j with gfps A_k
        A = [fixghost.ghost_gfp(w, cpre, tE, tS, th[k],
                                z3.Or(cpre(tE, tS, z3.Not(C.Y)), goal_of(j, zs)),
                                f'A{j}_{k}', log, assume=False) for k in range(K)]
        for k in range(K):
            facts.append(A[k].eq_fact())
            facts.append(C.postfixed_at(k, z3.Not(A[k].X), f'~A{j}_{k}'))
        facts.append(N.least_at(z3.Not(C.Y), A, f'~C{j}'))
        # Rabin contract (b') instance: (/\_j CYC_j(P) <= P) => zr <= P
        facts.append(('cyc_below', spec.subset(w, C.Y, P)))
    hyp1 = [f for f in facts if not isinstance(f, tuple)]
    below = [f[1] for f in facts if isinstance(f, tuple)]
    for j, b in enumerate(below):
        w.oblige(f'duality: CYC_{j}(~zs) <= ~zs   (from the Streett contract and the inner dualities)', b, hyps=hyp1)
    rabin_least = z3.Implies(z3.And(*below), spec.subset(w, zr, P))
    log.append('rabin.least at ~zs')
    w.oblige('duality: zr <= ~zs   (Rabin contract: least, instantiated at ~zs)',
             spec.subset(w, zr, P), hyps=hyp1 + [rabin_least])

    # ======== ~zr <= zs : Streett-greatest at Q = ~zr
    Q = z3.Not(zr)
    facts2 = list()
    need = list()
    for j in range(J):
        # L_j := LFP_j(~zr)
        L = fixghost.ghost_lfp(w, cpre, tE, tS, th, goal_of(j, Q), f'L{j}', log)
        # M_k := LFPI_k(CPre'(~L_j) /\ (CPre' zr \/ ~g_j))
        M = [fixghost.ghost_lfp_inside(
            w, cpre_d, None, None,
            z3.And(cpre_d(None, None, z3.Not(L.Y)), g_of(j, zr)), nh[k],
            f'M{j}_{k}', log, assume=False) for k in range(K)]
        for k in range(K):
            facts2.append(M[k].prefixed_fact())
            facts2.append(L.prefixed_at(k, z3.Not(M[k].X), f'~M{j}_{k}'))
        # Rabin contract (a'): every Q' post-fixed for CYC_j^{zr} is below zr;
        # instance at Q' = ~L_j with the ghosts M_k
        cyc = fixghost.CycSet(w, cpre_d, None, None, nh, g_of(j, zr), zr, log, f'cyc{j}(zr)')
        guard = [spec.equiv(w, M[k].inside, cyc.inside_of(z3.Not(L.Y))) for k in range(K)]
        postfixed = z3.And(*[spec.subset(w, z3.Not(L.Y), M[k].X) for k in range(K)])
        facts2.append(z3.Implies(z3.And(*guard, postfixed), spec.subset(w, z3.Not(L.Y), zr)))
        log.append(f'rabin.prefixed[{j}] at ~L{j}')
        need.append(spec.subset(w, Q, L.Y))
    for j, b in enumerate(need):
        w.oblige(f'duality: ~zr <= LFP_{j}(~zr)   (from the Rabin contract and the inner dualities)', b, hyps=facts2)
    streett_greatest = z3.Implies(z3.And(*need), spec.subset(w, Q, zs))
    log.append('streett.greatest at ~zr')
    w.oblige('duality: ~zr <= zs   (Streett contract: greatest, instantiated at ~zr)',
             spec.subset(w, Q, zs), hyps=facts2 + [streett_greatest])
    w.canary('duality canary: zr == zs', spec.equiv(w, zr, zs), hyps=hyp1 + facts2 + [rabin_least, streett_greatest])
    w.canary('duality canary: hypotheses contradictory',
             z3.BoolVal(False), hyps=hyp1 + facts2 + [rabin_least, streett_greatest])
    ctx.instances = log
