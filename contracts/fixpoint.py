"""Sidecar contracts for `omega.symbolic.fixpoint` (property C11).

Each harness is a contract bound to the real function: it builds symbolic
inputs satisfying `requires`, calls the function extracted from the current
source (loops cut, callees under contract stubbed), and states `ensures`.
Top-level postconditions are written from the statement of C11.
"""
import z3

import omega.symbolic.fixpoint as fx

from ovc import spec
from ovc.engine import SymBool


def set_mode(ctx):
    aut = ctx.w.aut
    aut.moore = ctx.p['moore']
    aut.plus_one = ctx.p['plus_one']
    return aut


def snapshot(aut):
    return (
        {k: dict(v) for k, v in aut.vars.items()},
        {k: list(v) for k, v in aut.varlist.items()},
        {k: str(v) for k, v in aut.action.items()},
        {k: str(v) for k, v in aut.init.items()},
        list(aut.bdd.vars))


def primed_lists_ok(aut):
    vl = aut.varlist
    return all(
        k + "'" in vl and list(vl[k + "'"]) == [v + "'" for v in vl[k]]
        for k in ('env', 'sys'))


def h_build(ctx):
    """`Automaton.build` / `prime_varlists`: whatever the primed lists held
    before (e.g. from an earlier partition of the variables), afterwards they
    are exactly the primed copies of the current unprimed lists."""
    import omega.symbolic.temporal as trl
    w = ctx.w
    aut = w.aut
    sh = w.shape
    pre = ctx.p.get('pre')
    if pre == 'swapped':
        aut.varlist["env'"] = [v + "'" for v in sh.sys]
        aut.varlist["sys'"] = [v + "'" for v in sh.env]
    elif pre == 'absent':
        aut.varlist.pop("env'", None)
        aut.varlist.pop("sys'", None)
    elif pre == 'stale-extra':
        aut.varlist["env'"] = list(aut.varlist.get("env'", [])) + ["zz'"]
    before = {k: list(v) for k, v in aut.varlist.items()}
    f = ctx.fn(trl.Automaton.build, overrides=None)
    # `build` calls the method through `self`, so re-extract that too
    g = ctx.fn(trl.Automaton.prime_varlists)
    aut.prime_varlists = lambda keys=None: g(aut, keys)
    ctx.call(f, aut, label='Automaton.build')
    w.oblige('Automaton.build.post: primed lists are the primed copies of the current env / sys lists',
             z3.BoolVal(primed_lists_ok(aut)))
    w.oblige('Automaton.build.frame: unprimed lists unchanged',
             z3.BoolVal(all(list(aut.varlist[k]) == before[k] for k in ('env', 'sys'))))
    del aut.prime_varlists
    ctx.call(g, aut, None, label='prime_varlists')
    w.oblige('prime_varlists(None).post: every unprimed list has its primed copy',
             z3.BoolVal(primed_lists_ok(aut)))
    w.canary('build canary', z3.BoolVal(before == dict(aut.varlist)) if pre != 'fresh' else z3.BoolVal(False))


def is_state_pred_syntactic(w, u):
    """support(u) within unprimed + rigid bits (what the real asserts demand)."""
    ok = set(w.groups(w.STATE))
    return set(w.bdd.support(u)) <= ok


def independent_of(w, t, bits):
    """z3: term `t` does not depend on any of `bits` (semantically)."""
    cs = list()
    for b in bits:
        c = w.z(b)
        t1 = z3.substitute(t, (c, z3.BoolVal(True)))
        t0 = z3.substitute(t, (c, z3.BoolVal(False)))
        cs.append(w.valid(t1 == t0))
    return z3.And(*cs) if cs else z3.BoolVal(True)


def cpre_of(ctx):
    w = ctx.w
    moore, plus_one = ctx.p['moore'], ctx.p['plus_one']

    def cpre(E, S, T):
        return spec.cpre(w, E, S, T, moore, plus_one)
    return cpre


# ---------------------------------------------------------------------------
# step

def step_stub(ctx, log=None):
    """Contract stub of `fixpoint.step`: checks `requires`, returns `ensures`."""
    w = ctx.w
    cpre = cpre_of(ctx)

    def stub(env_action, sys_action, target, aut):
        assert aut is w.aut
        w.oblige('call step: requires target is a state predicate',
                 z3.BoolVal(is_state_pred_syntactic(w, target)), kind='pre')
        w.oblige('call step: requires varlist[env\'], varlist[sys\'] are the primed copies of varlist[env], varlist[sys]',
                 z3.BoolVal(primed_lists_ok(aut)), kind='pre')
        if log is not None:
            log.append(target)
        return w.node(cpre(env_action.t, sys_action.t, target.t))
    return stub


def h_step(ctx):
    """`fixpoint.step`: r == CPre(target), exactly, in the mode of `aut`."""
    w = ctx.w
    aut = set_mode(ctx)
    E = w.pred('E', w.ACTION)
    S = w.pred('S', w.ACTION)
    T = w.pred('T', w.STATE)
    before = snapshot(aut)
    step = ctx.fn(fx.step)
    r = ctx.call(step, E, S, T, aut, label='step')
    tE, tS, tT, tr = map(w.term, (E, S, T, r))
    cpre = cpre_of(ctx)
    w.oblige('step.post: r == CPre_mode(E, S, T)',
             spec.equiv(w, tr, cpre(tE, tS, tT)))
    w.oblige('step.post: r is a state predicate',
             independent_of(w, tr, w.groups(("env'", "sys'"))))
    w.oblige('step.frame: aut unchanged',
             z3.BoolVal(snapshot(aut) == before), kind='frame')
    w.canary('step.canary: r == CPre(E, S, ~T)',
             spec.equiv(w, tr, cpre(tE, tS, z3.Not(tT))))
    # no hidden state: the same call on the same automaton after changing the
    # mode attributes obeys the contract of the NEW mode
    for m2, p2 in ((not ctx.p['moore'], ctx.p['plus_one']),
                   (ctx.p['moore'], not ctx.p['plus_one'])):
        aut.moore, aut.plus_one = m2, p2
        r2 = ctx.call(step, env_action=E, sys_action=S, target=T, aut=aut, label='step')
        w.oblige('step.post (same automaton, mode attributes changed between calls): r == CPre of the current mode',
                 spec.equiv(w, w.term(r2), spec.cpre(w, tE, tS, tT, m2, p2)))
    aut.moore, aut.plus_one = ctx.p['moore'], ctx.p['plus_one']
    r3 = ctx.call(step, E, S, T, aut, label='step')
    w.oblige('step.post: repeating the call gives an equivalent result',
             spec.equiv(w, w.term(r3), tr))
    # second canary: the other quantifier order / causality, only where the
    # shape makes them differ is not known statically, so it is informational
    if not (w.shape.env and w.shape.sys):
        return
    other = spec.cpre(w, tE, tS, tT, not ctx.p['moore'], ctx.p['plus_one'])
    w.canary('step.canary2(info): r == CPre with other quantifier order',
             spec.equiv(w, tr, other))


# ---------------------------------------------------------------------------
# trap

def _state_pred_maker(name):
    def mk(w, L):
        return w.pred(name, w.STATE)
    return mk


def _optional(name, none_label):
    """Havoc of a variable that is `None` or a state predicate."""
    def mk(w, L):
        flag = z3.Bool(none_label)
        if w.run.decide(flag):
            return None
        return w.pred(name, w.STATE)
    return mk


def _syntactic(w, *nodes):
    return z3.BoolVal(all(
        n is None or is_state_pred_syntactic(w, n) for n in nodes))


def h_trap(ctx):
    """`fixpoint.trap`: greatest fixpoint of X -> (safe /\\ CPre X) \\/ unless."""
    w = ctx.w
    aut = set_mode(ctx)
    cpre = cpre_of(ctx)
    E = w.pred('E', w.ACTION)
    S = w.pred('S', w.ACTION)
    safe = w.pred('Safe', w.STATE)
    unless = w.pred('Unless', w.STATE) if ctx.p.get('unless') else None
    tE, tS, tsafe = map(w.term, (E, S, safe))
    tun = w.term(unless) if unless is not None else z3.BoolVal(False)

    def F(X):
        return z3.Or(z3.And(tsafe, cpre(tE, tS, X)), tun)

    P = w.ghost('P', w.STATE)          # arbitrary post-fixed point
    hypP = spec.subset(w, P, F(P))
    w.assume(hypP)

    def inv(L):
        q, qold = L['q'], L['qold']
        # invariants speak about the abstraction only: q stays above every
        # post-fixed point, is a pre-fixed point, and is below F(qold)
        tq = w.term(q)
        out = [('typing', _syntactic(w, q, qold)),
               ('P_below_q', spec.subset(w, P, tq)),
               ('F_q_below_q', spec.subset(w, F(tq), tq))]
        if qold is not None:
            out.append(('q_below_F_qold',
                        spec.subset(w, tq, F(w.term(qold)))))
        return out

    loops = {0: dict(
        vars=dict(q=_state_pred_maker('q!h'),
                  qold=_optional('qold!h', 'qold_is_None'),
                  pre=_state_pred_maker('pre!h')),
        inv=inv)}
    before = snapshot(aut)
    trap = ctx.fn(fx.trap, loops=loops, overrides=dict(step=step_stub(ctx)))
    if ctx.p.get('keyword', bool(ctx.p.get('moore'))):
        # the documented parameter names, given by keyword
        r = ctx.call(trap, env_action=E, sys_action=S, safe=safe, aut=aut, unless=unless, label='trap')
    else:
        r = ctx.call(trap, E, S, safe, aut, unless=unless, label='trap')
    tr = w.term(r)
    w.oblige('trap.post: r == (safe /\\ CPre r) \\/ unless   (fixpoint)',
             spec.equiv(w, tr, F(tr)))
    w.oblige('trap.post: every X with X <= F(X) is below r   (greatest)',
             spec.subset(w, P, tr), hyps=[hypP])
    w.oblige('trap.post: r is a state predicate',
             independent_of(w, tr, w.groups(("env'", "sys'"))))
    w.oblige('trap.frame: aut unchanged',
             z3.BoolVal(snapshot(aut) == before), kind='frame')
    w.canary('trap.canary: r == safe', spec.equiv(w, tr, tsafe))
    w.canary('trap.canary: r below every fixpoint (least)',
             spec.subset(w, tr, P), hyps=[spec.equiv(w, P, F(P))])


# ---------------------------------------------------------------------------
# attractor

def h_attractor(ctx):
    """`fixpoint.attractor`: least fixpoint of the documented recurrence.

    H(Q) = (Q \\/ CPre Q) [/\\ inside];  r == H(r), H(target) <= r, and r is
    below every R with H(target) <= R and H(R) <= R.  Without `inside` this
    is: target <= r, CPre r <= r, least such.
    """
    w = ctx.w
    aut = set_mode(ctx)
    cpre = cpre_of(ctx)
    E = w.pred('E', w.ACTION)
    S = w.pred('S', w.ACTION)
    target = w.pred('Target', w.STATE)
    inside = w.pred('Inside', w.STATE) if ctx.p.get('inside') else None
    tE, tS, tT = map(w.term, (E, S, target))
    tin = w.term(inside) if inside is not None else z3.BoolVal(True)

    def H(Q):
        return z3.And(z3.Or(Q, cpre(tE, tS, Q)), tin)

    R = w.ghost('R', w.STATE)
    hypR = z3.And(spec.subset(w, H(tT), R), spec.subset(w, H(R), R))
    w.assume(hypR)

    def inv(L):
        q, qold = L['q'], L['qold']
        out = [('typing', _syntactic(w, q, qold))]
        if qold is None:
            out.append(('init', spec.equiv(w, w.term(q), tT)))
        else:
            tq = w.term(q)
            out.append(('cpre_qold_below_q', spec.subset(
                w, z3.And(cpre(tE, tS, w.term(qold)), tin), tq)))
            out.append(('q_below_H_q', spec.subset(w, tq, H(tq))))
            out.append(('H_target_below_q', spec.subset(w, H(tT), tq)))
            out.append(('q_below_R', spec.subset(w, tq, R)))
        return out

    loops = {0: dict(
        vars=dict(q=_state_pred_maker('q!h'),
                  qold=_optional('qold!h', 'qold_is_None'),
                  pred=_state_pred_maker('pred!h')),
        inv=inv)}
    before = snapshot(aut)
    attractor = ctx.fn(fx.attractor, loops=loops,
                       overrides=dict(step=step_stub(ctx)))
    if ctx.p.get('keyword', bool(ctx.p.get('moore'))):
        r = ctx.call(attractor, env_action=E, sys_action=S, target=target, aut=aut, inside=inside,
                     label='attractor')
    else:
        r = ctx.call(attractor, E, S, target, aut, inside=inside,
                     label='attractor')
    tr = w.term(r)
    w.oblige('attractor.post: r == (r \\/ CPre r) [/\\ inside]   (fixpoint)',
             spec.equiv(w, tr, H(tr)))
    w.oblige('attractor.post: H(target) <= r',
             spec.subset(w, H(tT), tr))
    w.oblige('attractor.post: r below every R closed under H above H(target)'
             '   (least)', spec.subset(w, tr, R), hyps=[hypR])
    if inside is None:
        w.oblige('attractor.post: target <= r', spec.subset(w, tT, tr))
        w.oblige('attractor.post: CPre r <= r',
                 spec.subset(w, cpre(tE, tS, tr), tr))
    w.oblige('attractor.post: r is a state predicate',
             independent_of(w, tr, w.groups(("env'", "sys'"))))
    w.oblige('attractor.frame: aut unchanged',
             z3.BoolVal(snapshot(aut) == before), kind='frame')
    w.canary('attractor.canary: r == target', spec.equiv(w, tr, tT))
    w.canary('attractor.canary: every H-closed R is below r',
             spec.subset(w, R, tr), hyps=[hypR])


# ---------------------------------------------------------------------------
# ee_image, descendants

def h_ee_image(ctx):
    """`fixpoint.ee_image`: exactly the successors under action['sys']."""
    w = ctx.w
    aut = set_mode(ctx)
    A = w.pred('SysAction', w.ACTION)
    aut.action['sys'] = A
    src = w.pred('Source', w.STATE)
    before = snapshot(aut)
    f = ctx.fn(fx.ee_image)
    r = ctx.call(f, src, aut, label='ee_image')
    tr = w.term(r)
    w.oblige('ee_image.post: r(s) == \\E s0: source(s0) /\\ action(s0, s)',
             spec.equiv(w, tr, spec.image(w, w.term(src), w.term(A))))
    w.oblige('ee_image.post: r is a state predicate',
             independent_of(w, tr, w.groups(("env'", "sys'"))))
    w.oblige('ee_image.frame: aut unchanged',
             z3.BoolVal(snapshot(aut) == before), kind='frame')
    w.canary('ee_image.canary: r == source',
             spec.equiv(w, tr, w.term(src)))


def ee_image_stub(ctx):
    w = ctx.w

    def stub(source, aut):
        assert aut is w.aut
        return w.node(spec.image(w, source.t, w.term(aut.action['sys'])))
    return stub


def h_descendants(ctx):
    """`fixpoint.descendants`.

    L(Q) = (Q \\/ Image Q) /\\ constrain, q0 = Image(source) or source:
    r == L(r) (so r <= constrain and r is closed under constrained
    successors), L(q0) <= r, and r is the least such set.
    """
    w = ctx.w
    aut = set_mode(ctx)
    future = ctx.p.get('future', True)
    A = w.pred('SysAction', w.ACTION)
    aut.action['sys'] = A
    tA = w.term(A)
    src = w.pred('Source', w.STATE)
    con = w.pred('Constrain', w.STATE)
    tsrc, tcon = w.term(src), w.term(con)

    def img(Q):
        return spec.image(w, Q, tA)

    def Lf(Q):
        return z3.And(z3.Or(Q, img(Q)), tcon)

    q0 = img(tsrc) if future else tsrc
    R = w.ghost('R', w.STATE)
    hypR = z3.And(spec.subset(w, Lf(q0), R), spec.subset(w, Lf(R), R))
    w.assume(hypR)

    def inv(L):
        q, qold = L['q'], L['qold']
        out = [('typing', _syntactic(w, q, qold))]
        if qold is None:
            out.append(('init', spec.equiv(w, w.term(q), q0)))
        else:
            tq = w.term(q)
            out.append(('image_qold_below_q', spec.subset(
                w, z3.And(img(w.term(qold)), tcon), tq)))
            out.append(('q_below_constrain', spec.subset(w, tq, tcon)))
            out.append(('L_q0_below_q', spec.subset(w, Lf(q0), tq)))
            out.append(('q_below_R', spec.subset(w, tq, R)))
        return out

    loops = {0: dict(
        vars=dict(q=_state_pred_maker('q!h'),
                  qold=_optional('qold!h', 'qold_is_None'),
                  post=_state_pred_maker('post!h')),
        inv=inv)}
    before = snapshot(aut)
    f = ctx.fn(fx.descendants, loops=loops,
               overrides=dict(ee_image=ee_image_stub(ctx)))
    r = ctx.call(f, src, con, aut, future=future, label='descendants')
    tr = w.term(r)
    w.oblige('descendants.post: r == (r \\/ Image r) /\\ constrain',
             spec.equiv(w, tr, Lf(tr)))
    w.oblige('descendants.post: r <= constrain', spec.subset(w, tr, tcon))
    w.oblige('descendants.post: Image(r) /\\ constrain <= r   (closed)',
             spec.subset(w, z3.And(img(tr), tcon), tr))
    w.oblige('descendants.post: L(q0) <= r', spec.subset(w, Lf(q0), tr))
    w.oblige('descendants.post: r below every L-closed R above L(q0)   (least)',
             spec.subset(w, tr, R), hyps=[hypR])
    w.oblige('descendants.frame: aut unchanged',
             z3.BoolVal(snapshot(aut) == before), kind='frame')
    w.canary('descendants.canary: r == constrain', spec.equiv(w, tr, tcon))


FUNCTIONS = dict(build=h_build, step=h_step, trap=h_trap, attractor=h_attractor,
                 ee_image=h_ee_image, descendants=h_descendants)
