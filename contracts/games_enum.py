"""Sidecar contracts for `omega.games.enumeration` (C12)."""
import contextlib
import io
import itertools
import random

import z3

import omega.games.enumeration as ge

from ovc import spec, denote
from ovc.engine import SymBool


def h_select_candidate(ctx):
    w = ctx.w
    aut = w.aut
    u = w.pred('Next', w.STATE)
    v = w.pred('Visited', w.STATE)
    tu, tv = w.term(u), w.term(v)
    prefer = ctx.p['visited']
    # requires: some next node exists
    nonempty = z3.Not(w.valid(z3.Not(tu)))
    w.assume(nonempty)
    f = ctx.fn(ge._select_candidate_nodes)
    r, remain = ctx.call(f, u, v, aut, visited=prefer, label='_select_candidate_nodes')
    tr = w.term(r)
    trem = remain.t if isinstance(remain, SymBool) else z3.BoolVal(bool(remain))
    both = z3.And(tu, tv) if prefer else z3.And(tu, z3.Not(tv))
    has = z3.Not(w.valid(z3.Not(both)))
    hyps = [nonempty]
    w.oblige('_select_candidate_nodes.post: result is a non-empty subset of the next nodes',
             z3.And(spec.subset(w, tr, tu), z3.Not(w.valid(z3.Not(tr)))), hyps=hyps)
    w.oblige('_select_candidate_nodes.post: the preferred kind of node (visited / new) is selected whenever one exists, else all next nodes',
             spec.equiv(w, tr, z3.If(has, both, tu)), hyps=hyps)
    w.oblige('_select_candidate_nodes.post: `remain` <=> the selected nodes are visited ones',
             trem == (has if prefer else z3.Not(has)), hyps=hyps)
    w.canary('_select_candidate_nodes canary', spec.equiv(w, tr, tu), hyps=hyps)


def h_add_to_visited(ctx):
    w = ctx.w
    aut = w.aut
    names = list(w.shape.env) + list(w.shape.sys)
    den = denote.Den(aut.vars, w.z)
    V = w.pred('Visited', w.STATE)
    f = ctx.fn(ge._add_to_visited)
    doms = list()
    for nm in names:
        if aut.vars[nm]['type'] == 'bool':
            doms.append([False, True])
        else:
            L, H = den.limits(nm)
            doms.append(list(range(L, H + 1)))
    for vals in itertools.product(*doms):
        values = dict(zip(names, vals))
        r = ctx.call(f, values, V, aut, label='_add_to_visited')
        lits = list()
        for nm, v in values.items():
            d = aut.vars[nm]
            if d['type'] == 'bool':
                lits.append(w.z(nm) == z3.BoolVal(v))
            else:
                lits += [w.z(b) == z3.BoolVal(bool((v >> i) & 1))
                         for i, b in enumerate(d['bitnames'])]
        w.oblige('_add_to_visited.post: visited\' == visited \\/ {the valuation}   (every representable valuation)',
                 spec.equiv(w, w.term(r), z3.Or(w.term(V), z3.And(*lits))))
    w.oblige('_primed_vars_per_quantifier.post: primed copies of each player\'s variables',
             z3.BoolVal(ge._primed_vars_per_quantifier(aut.varlist) == dict(
                 env={v + "'" for v in aut.varlist['env']},
                 sys={v + "'" for v in aut.varlist['sys']})))
    w.canary('_add_to_visited canary', spec.equiv(w, w.term(r), w.term(V)))


# ---------------------------------------------------------------------------
# bounded: graph-level postcondition on concrete implementations

def _vals(aut, names):
    den = denote.Den(aut.vars, lambda b: None)
    doms = list()
    for nm in names:
        if aut.vars[nm]['type'] == 'bool':
            doms.append([False, True])
        else:
            L, H = den.limits(nm.rstrip("'"))
            doms.append(list(range(L, H + 1)))
    return [dict(zip(names, v)) for v in itertools.product(*doms)]


def check_graph(aut, g, qinit, env='env', sys='impl'):
    """Explicit check of the enumerated graph against the symbolic actions."""
    fails = list()
    E, S = aut.action[env], aut.action[sys]
    evars, svars = list(aut.varlist[env]), list(aut.varlist[sys])
    allv = evars + svars
    seen = dict()
    for u, d in g.nodes(data=True):
        key = tuple(sorted(d.items()))
        if set(d) != set(allv):
            fails.append(dict(name='every node carries a value for every variable', node=str(d)))
        if key in seen:
            fails.append(dict(name='one node per distinct reached valuation', node=str(d)))
        seen[key] = u
    # initial nodes
    einit, sinit = aut.init[env], aut.init[sys]
    inits = [g.nodes[u] for u in g.initial_nodes]
    if qinit == r'\A \A':
        want = [d for d in _vals(aut, allv) if aut.let(d, einit & sinit) == aut.true]
        if sorted(map(str, map(sorted, map(dict.items, inits)))) != sorted(map(str, map(sorted, map(dict.items, want)))):
            fails.append(dict(name=r'\A \A: initial nodes are exactly the states satisfying both initial conditions', got=len(inits), want=len(want)))
    elif qinit == r'\E \E':
        if len(inits) != 1 or aut.let(inits[0], sinit) != aut.true:
            fails.append(dict(name=r'\E \E: exactly one initial node, satisfying the component\'s initial condition', inits=str(inits)))
    else:
        # one initial node per environment value admitted by EnvInit
        xs = [d for d in _vals(aut, evars) if aut.exist(svars, aut.let(d, einit)) == aut.true] \
            if qinit == r'\A \E' else \
            [d for d in _vals(aut, evars) if aut.exist(svars, aut.let(d, einit)) == aut.true]
        got_x = [{k: d[k] for k in evars} for d in inits]
        if sorted(map(str, map(sorted, map(dict.items, got_x)))) != sorted(map(str, map(sorted, map(dict.items, xs)))):
            fails.append(dict(name=f'{qinit}: one initial node per environment value admitted by the environment\'s initial condition', got=str(got_x), want=str(xs)))
        for d in inits:
            if aut.let(d, sinit) != aut.true or aut.let(d, einit) != aut.true:
                fails.append(dict(name=f'{qinit}: initial nodes satisfy both initial conditions', node=str(d)))
        if qinit == r'\E \A' and len({tuple(sorted((k, d[k]) for k in svars)) for d in inits}) > 1:
            fails.append(dict(name=r'\E \A: one component choice for all environment values', inits=str(inits)))
    # edges
    for u, d in g.nodes(data=True):
        out = list(g.successors(u))
        by_x = dict()
        for v in out:
            dv = g.nodes[v]
            step = dict(d)
            step.update({k + "'": val for k, val in dv.items()})
            if aut.let(step, E) != aut.true or aut.let(step, S) != aut.true:
                fails.append(dict(name='every edge is a step allowed by both the environment\'s and the implementation\'s actions',
                                  frm=str(d), to=str(dv)))
            kx = tuple(sorted((k, dv[k]) for k in evars))
            by_x[kx] = by_x.get(kx, 0) + 1
        # admissible next environment values at this node
        ex = aut.exist([k + "'" for k in svars], aut.let(d, E))
        adm = [x for x in _vals(aut, [k + "'" for k in evars]) if aut.let(x, ex) == aut.true]
        adm_keys = {tuple(sorted((k[:-1], v) for k, v in x.items())) for x in adm}
        if set(by_x) != adm_keys or any(c != 1 for c in by_x.values()):
            fails.append(dict(name='every node has exactly one outgoing edge for each next environment value the environment\'s action allows there, and none for others',
                              node=str(d), edges=str(sorted(by_x.items())), admissible=str(sorted(adm_keys))))
        if len(fails) > 5:
            break
    return fails


def enumeration_on_implementations(kind, seed, n_games):
    def run():
        import omega.games.gr1 as gr1
        from contracts import gr1_monitor as gm
        rnd = random.Random(seed)
        fails = list()
        n = built = nodes = 0
        while n < n_games:
            n += 1
            de, ds = rnd.choice([(dict(x='bool'), dict(y='bool')), (dict(x='bool'), dict(y=(0, 2))),
                                 (dict(x=(0, 2)), dict(y='bool')), (dict(x='bool'), dict(y='bool', v='bool'))])
            moore, plus_one = rnd.choice([(True, True), (True, False), (False, True), (False, False)])
            qinit = rnd.choice([r'\A \A', r'\E \E', r'\A \E', r'\E \A'])
            aut = gm.make_game(rnd, de, ds, moore, plus_one, qinit, 1, rnd.choice([1, 2]), dense=1.0 if rnd.random() < 0.5 else None)
            # the environment's action must not read the component's next values
            eb = [b for b in aut.bdd.support(aut.action['env']) if b.endswith("'")
                  and any(b.startswith(v) for v in ds)]
            if eb:
                aut.action['env'] = aut.exist([v + "'" for v in ds], aut.action['env'])
            if aut.init['env'] == aut.false:
                continue          # requires: satisfiable environment initial condition
            try:
                with contextlib.redirect_stdout(io.StringIO()):
                    if kind == 'streett':
                        z, yij, xijk = gr1.solve_streett_game(aut)
                        if not gr1.is_realizable(z, aut) or z == aut.false:
                            continue
                        gr1.make_streett_transducer(z, yij, xijk, aut)
                    else:
                        return None
                    g = ge.action_to_steps(aut, 'env', 'impl', qinit=qinit)
            except AssertionError as e:
                fails.append(dict(name='enumeration of a synthesized implementation runs without internal assertion failure',
                                  error=repr(e)[:200], qinit=qinit, moore=moore, plus_one=plus_one))
                continue
            built += 1
            nodes += len(g)
            f = check_graph(aut, g, qinit)
            for x in f[:2]:
                x.update(qinit=qinit, moore=moore, plus_one=plus_one, game=n, seed=seed)
                fails.append(x)
        return dict(records=[], stats=dict(), functions={
            f'omega.games.enumeration.{k}': dict(source_lines=0, cut={}, stubs=[], dropped='run natively on real dd: bounded')
            for k in ('action_to_steps', '_action_to_steps', '_init_search', '_forall_init', '_exist_init',
                      '_forall_exist_init', '_exist_forall_init', '_add_new_node', '_find_node')},
            bounded=dict(evaluations=n, graphs=built, nodes=nodes, failures=fails[:6]))
    return run


def enumeration_handmade():
    def run():
        import logging
        import omega.symbolic.temporal as trl
        fails = list()
        n = 0
        cases = [
            (dict(x='bool'), dict(y=(0, 2)), "x' <=> ~ x", r"(x => (y' = 2)) /\ (~ x => (y' = y))", 'x', 'y = 0'),
            (dict(x=(0, 2)), dict(y='bool'), "x' # x", "y' <=> (x = 1)", 'x = 0', '~ y'),
            (dict(x='bool'), dict(y='bool', v=(-1, 1)), 'TRUE', r"(y' <=> x) /\ (v' = -1 \/ v' = v)", 'TRUE', r'y /\ (v = 0)'),
            # implementation initial conditions that read the environment's initial value
            (dict(x=(0, 3)), dict(y=(0, 3)), "x' = x", "y' = y", 'x >= 1', r'(y = 3) \/ ((x = 1) /\ (y = 0))'),
            (dict(x='bool'), dict(y=(0, 2)), 'TRUE', r"y' = y", 'TRUE', r'(y = 2) \/ (x /\ (y = 1))'),
            # an environment without variables whose action is a state predicate (closed system)
            (dict(), dict(c=(0, 3), b='bool'), r'(c < 2) \/ b', r"(c' = c + 1 \/ c' = 0) /\ (b' <=> b)", 'TRUE', r'(c = 0) /\ ~ b'),
            (dict(), dict(y=(0, 2)), 'y # 2', "y' # y", 'TRUE', 'y = 0'),
            # all-negative domains
            (dict(x=(-3, -1)), dict(z=(-2, -1)), "x' # x", r"(z' = -1) \/ (x = -2 /\ z' = z)", 'x = -3', 'z = -2'),
            # a component without variables
            (dict(x=(0, 2)), dict(), "(x' = x + 1) \/ (x = 2 /\ x' = 0)", 'TRUE', 'x < 2', 'TRUE'),
        ]
        elog = logging.getLogger('omega.games.enumeration')
        for de, ds, ea, sa, ei, si in cases:
            for moore in (True, False):
                for qinit in (r'\A \A', r'\E \E', r'\A \E', r'\E \A'):
                    for variant in ('plain', 'debug-logging', 'role-keys-swapped', 'qinit-positional', 'attribute-differs'):
                        if variant != 'plain' and moore:
                            continue
                        n += 1
                        aut = trl.Automaton()
                        if de:
                            aut.declare_variables(**de)
                        if ds:
                            aut.declare_variables(**ds)
                        ek, sk = ('env', 'impl') if variant != 'role-keys-swapped' else ('sys', 'env')
                        # role-keys-swapped: the inputs are stored under the key 'sys', the component under 'env'
                        aut.varlist = {ek: list(de), sk: list(ds)}
                        if variant != 'role-keys-swapped':
                            aut.varlist['sys'] = list(ds)
                        aut.moore, aut.plus_one, aut.qinit = moore, True, qinit
                        if variant == 'attribute-differs':
                            # the automaton carries another form in its attribute (e.g. the default of
                            # default_streett_automaton): the explicit argument decides
                            forms_ = [r'\A \A', r'\E \E', r'\A \E', r'\E \A']
                            aut.qinit = forms_[(forms_.index(qinit) + 1) % 4]
                        aut.prime_varlists()
                        aut.action[ek], aut.action[sk] = ea, sa
                        aut.init[ek], aut.init[sk] = ei, si
                        if variant != 'role-keys-swapped':
                            aut.action['sys'] = sa
                        if qinit == r'\E \E':
                            aut.init[sk] = f'({si}) /\\ ({ei})'
                        old_level = elog.level
                        old_disable = logging.root.manager.disable
                        if variant == 'debug-logging':
                            logging.disable(logging.NOTSET)
                            elog.setLevel(logging.DEBUG)
                            elog.propagate = False
                            if not elog.handlers:
                                elog.addHandler(logging.NullHandler())
                        try:
                            if variant == 'qinit-positional':
                                g = ge.action_to_steps(aut, ek, sk, qinit)
                            else:
                                g = ge.action_to_steps(aut, ek, sk, qinit=qinit)
                        except AssertionError as e:
                            fails.append(dict(name='enumeration runs', error=repr(e)[:200], qinit=qinit, variant=variant))
                            continue
                        except Exception as e:
                            fails.append(dict(name='enumeration runs (whatever the keys the two players are stored under, and whatever the logging level)',
                                              error=repr(e)[:200], qinit=qinit, variant=variant))
                            continue
                        finally:
                            elog.setLevel(old_level)
                            elog.propagate = True
                            logging.disable(old_disable)
                        for x in check_graph(aut, g, qinit, env=ek, sys=sk)[:2]:
                            x.update(qinit=qinit, moore=moore, case=sa, variant=variant)
                            if variant != 'plain':
                                x['name'] = x['name'] + f' ({variant})'
                            fails.append(x)
                        if variant != 'plain':
                            continue
                        # the SAME automaton object with another implementation put in
                        # its place: the graph must be that of the implementation
                        # present at call time (no state kept between calls)
                        n += 1
                        if not ds:
                            continue
                        frame = ' /\\ '.join(
                            (f"({v}' <=> {v})" if ds[v] == 'bool' else f"({v}' = {v})") for v in ds)
                        aut.action['impl'] = aut.action['sys'] = frame
                        aut.init['impl'] = f'~ ({si})' if qinit != r'\E \E' else f'(~ ({si})) /\\ ({ei})'
                        try:
                            g2 = ge.action_to_steps(aut, 'env', 'impl', qinit=qinit)
                        except AssertionError as e:
                            continue      # e.g. an empty set of initial nodes is refused
                        for x in check_graph(aut, g2, qinit)[:2]:
                            x.update(qinit=qinit, moore=moore, case=f'second implementation on the same automaton object: action {frame}, init ~ ({si})')
                            x['name'] = x['name'] + ' (second enumeration of the same automaton after its implementation was replaced)'
                            fails.append(x)
        return dict(records=[], stats=dict(), functions={}, bounded=dict(evaluations=n, failures=fails[:6]))
    return run
