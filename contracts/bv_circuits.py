"""Sidecar contracts for the circuit generators of `omega.logic.bitvector` (C06).

Each harness runs the generator re-extracted from the current source on opaque
atoms, evaluates the returned strings with the real prefix evaluator on a
SpecBDD, and states the integer-level postcondition for ALL bit values.
Counter-models are replayed through the real `symbolic.bdd.add_expr` on the
real `dd` manager and compared with Python integer arithmetic.
"""
import z3

import omega.logic.bitvector as bv

from ovc import circuit as cc
from ovc import cutloops


def _fn(functions, func, overrides=None):
    f, info = cutloops.extract(func, overrides=overrides)
    info['stubs'] = sorted(overrides or {})
    functions[info['function']] = info
    return f


def _ext(ts, n):
    """Spec-side sign extension of Bool terms."""
    return list(ts) + [ts[-1]] * (n - len(ts))


def _replay(circ, cells, ins, outs, pyspec, bool_outs=None):
    """Replay closure: real evaluation vs Python integers.

    ins / outs: dict name -> list of bit strings; pyspec(ints) -> dict name -> int
    (or bool for names in bool_outs).
    """
    bool_outs = set(bool_outs or ())

    def replay(model):
        a = cc.model_assignment(model, circ)
        iv = dict()
        for k, bits in ins.items():
            iv[k] = cc.to_int(cc.real_eval(cells, bits, a))
        want = pyspec(iv)
        got = dict()
        for k, bits in outs.items():
            r = cc.real_eval(cells, bits, a)
            got[k] = r[0] if k in bool_outs else cc.to_int(r)
        bad = {k: (got[k], want[k]) for k in want
               if want[k] is not None and got[k] != want[k]}
        if bad:
            return dict(outcome='violates', source='solver-model',
                        failed=[dict(name=k, got=g, want=w_)
                                for k, (g, w_) in bad.items()],
                        inputs=iv)
        return dict(outcome='no-failing-input-found', inputs=iv, got=got)
    return replay


def _pow2(n):
    return z3.IntVal(2 ** n)


# ---------------------------------------------------------------------------

def h_adder(nx, ny, add, extend_by, start, sx='var', sy='var'):
    def h(run, functions):
        c = cc.Circ()
        junk = c.junk(start)
        x = c.operand('a', nx, sx)
        y = c.operand('b', ny, sy)
        f = _fn(functions, bv.adder_subtractor)
        res, mem, carry = f(list(x), list(y), add=add, start=start,
                            extend_by=extend_by)
        cells = junk + mem
        vals = c.eval_mem(cells)
        tx, ty = c.eval_bits(x, vals), c.eval_bits(y, vals)
        tr = c.eval_bits(res, vals)
        tc = c.eval_bit(carry, vals)
        n = max(nx, ny) + extend_by
        run.oblige('adder_subtractor.post: shape (len(res) = max width + extend_by, len(mem) = 2 len(res), registers address own cells)',
                   z3.BoolVal(len(res) == n and len(mem) == 2 * n
                              and cc.registers_in_range(res + [carry], len(cells))))
        op = '+' if add else '-'
        rp = _replay(c, cells, dict(x=x, y=y), dict(r=res),
                     lambda iv: dict(r=(iv['x'] + iv['y'] if add else iv['x'] - iv['y'])
                                     if extend_by >= 1 else None))
        px, py = _ext(tx, n), _ext(ty, n)
        bx, by, br = cc.bv_of(px), cc.bv_of(py), cc.bv_of(tr)
        run.oblige(f'adder_subtractor.post: res = sext(x) {op} sext(y) modulo 2^n',
                   br == (bx + by if add else bx - by), replay=rp)
        if extend_by >= 1:
            # exactness: with one extension bit the modular result is the
            # integer result (range lemma over mathematical integers)
            X, Y = z3.Int('X'), z3.Int('Y')
            rng = z3.And(-2 ** (nx - 1) <= X, X < 2 ** (nx - 1),
                         -2 ** (ny - 1) <= Y, Y < 2 ** (ny - 1))
            Z = X + Y if add else X - Y
            run.oblige(f'adder_subtractor.lemma: |x {op} y| fits n = max width + extend_by bits, so the modular result is exact',
                       z3.Implies(rng, z3.And(-2 ** (n - 1) <= Z,
                                              Z < 2 ** (n - 1))))
        zx, zy = z3.ZeroExt(1, bx), z3.ZeroExt(1, by)
        if add:
            tot = zx + zy
        else:
            tot = zx + z3.ZeroExt(1, ~by) + z3.BitVecVal(1, n + 1)
        run.oblige('adder_subtractor.post: carry is the carry-out of the top bit',
                   tc == (z3.Extract(n, n, tot) == z3.BitVecVal(1, 1)))
        run.canary('adder_subtractor.canary: res = sext(x) (wrong)',
                   br == bx)
    return h


_CMP = {
    '=': lambda a, b: a == b, '#': lambda a, b: a != b,
    '/=': lambda a, b: a != b, '!=': lambda a, b: a != b,
    '<': lambda a, b: a < b, '<=': lambda a, b: a <= b,
    '=<': lambda a, b: a <= b, '>=': lambda a, b: a >= b,
    '>': lambda a, b: a > b}


def h_comparator(op, nx, ny, start=0, sx='var', sy='var'):
    def h(run, functions):
        c = cc.Circ()
        junk = c.junk(start)
        x = c.operand('a', nx, sx)
        y = c.operand('b', ny, sy)
        f = _fn(functions, bv.flatten_comparator)
        mem = list(junk)
        s = f(op, list(x), list(y), mem)
        # `s` is a self-contained buffer expression `$ n cells...`
        tb = c.eval_bit(s, [])
        vals = c.eval_mem(junk)
        tx, ty = c.eval_bits(x, vals), c.eval_bits(y, vals)
        W = max(nx, ny)
        X = z3.SignExt(W - nx, cc.bv_of(tx))
        Y = z3.SignExt(W - ny, cc.bv_of(ty))
        rp = _replay(c, [], dict(x=x, y=y), dict(r=[s]),
                     lambda iv: dict(r=_CMP[op](iv['x'], iv['y'])),
                     bool_outs={'r'})
        run.oblige(f'flatten_comparator.post: result <=> sval(x) {op} sval(y)',
                   tb == _CMP[op](X, Y), replay=rp)
        run.canary('flatten_comparator.canary: result <=> TRUE', tb)
    return h


def h_extension(n, m, sx='var'):
    """sign_extension / equalize_width / pad / fixed_shift / truncate."""
    def h(run, functions):
        c = cc.Circ()
        x = c.operand('a', n, sx)
        tx = c.eval_bits(x, [])
        Wd = 40

        def S(ts):
            return z3.SignExt(Wd - len(ts), cc.bv_of(ts))

        def U(ts):
            return z3.ZeroExt(Wd - len(ts), cc.bv_of(ts))
        X = S(tx)
        f = _fn(functions, bv.sign_extension)
        e = f(list(x), m)
        te = c.eval_bits(e, [])
        run.oblige('sign_extension.post: len = n and sval unchanged',
                   z3.And(z3.BoolVal(len(e) == m), S(te) == X))
        g = _fn(functions, bv.equalize_width)
        y = c.operand('b', m, 'var')
        for ext in (0, 1, 3):
            if max(n, m) + ext >= 32:
                continue
            p, q = g(list(x), list(y), extend_by=ext)
            tp, tq = c.eval_bits(p, []), c.eval_bits(q, [])
            run.oblige(f'equalize_width.post(extend_by={ext}): equal len = max + extend_by, values unchanged',
                       z3.And(z3.BoolVal(len(p) == len(q) == max(n, m) + ext),
                              S(tp) == X,
                              S(tq) == S(c.eval_bits(y, []))))
        if m > n:
            pd = _fn(functions, bv.pad)(list(x), m)
            tpd = c.eval_bits(pd, [])
            run.oblige('pad.post: len = n, unsigned value unchanged',
                       z3.And(z3.BoolVal(len(pd) == m),
                              U(tpd) == U(tx)))
        fs = _fn(functions, bv.fixed_shift)
        for cshift in sorted({0, 1, n // 2, n}):
            l = fs(list(x), cshift, left=True)
            tl = c.eval_bits(l, [])
            run.oblige(f'fixed_shift.post(left, c={cshift}): uval = uval(x) * 2^c mod 2^n',
                       z3.And(z3.BoolVal(len(l) == n),
                              cc.bv_of(tl) == cc.bv_of(tx) << cshift))
            l2 = fs(list(x), cshift, left=True, truncate=False)
            tl2 = c.eval_bits(l2, [])
            run.oblige(f'fixed_shift.post(left, no truncation, c={cshift}): uval = uval(x) * 2^c',
                       z3.ZeroExt(Wd + 32 - len(tl2), cc.bv_of(tl2))
                       == (z3.ZeroExt(Wd + 32 - n, cc.bv_of(tx)) << cshift))
            r = fs(list(x), cshift, left=False)
            tr_ = c.eval_bits(r, [])
            run.oblige(f'fixed_shift.post(right arithmetic, c={cshift}): sval = floor(sval(x) / 2^c)',
                       z3.And(z3.BoolVal(len(r) == n),
                              cc.bv_of(tr_) == (cc.bv_of(tx) >> cshift)))
        t = _fn(functions, bv.truncate)(list(x), min(n, m))
        run.oblige('truncate.post: first n bits',
                   z3.BoolVal(t == list(x)[:min(n, m)]))
        run.canary('sign_extension.canary: uval unchanged',
                   U(te) == U(tx) if m > n else z3.BoolVal(False))
    return h


def h_ite(n, start):
    def h(run, functions):
        c = cc.Circ()
        junk = c.junk(start)
        g = c.atoms('g', 1)[0]
        b = c.operand('b', n)
        d = c.operand('d', n)
        f = _fn(functions, bv.ite_function)
        r, m = f(g, list(b), list(d), start=start)
        cells = junk + m
        vals = c.eval_mem(cells)
        tg = c.eval_bit(g, vals)
        tr = c.eval_bits(r, vals)
        run.oblige('ite_function.post: sval(r) = IF a THEN sval(b) ELSE sval(c); len(mem) = n + 1',
                   z3.And(z3.BoolVal(len(r) == n and len(m) == n + 1 and
                                     cc.registers_in_range(r, len(cells))),
                          cc.bv_of(tr) == z3.If(tg, cc.bv_of(c.eval_bits(b, vals)),
                                                cc.bv_of(c.eval_bits(d, vals)))))
        p, q = c.atoms('p', 1)[0], c.atoms('q', 1)[0]
        s = _fn(functions, bv.ite_connective)(g, p, q)
        run.oblige('ite_connective.post: IF a THEN b ELSE c',
                   c.eval_bit(s, []) == z3.If(c.z(g), c.z(p), c.z(q)))
        run.canary('ite_function.canary: r = b',
                   cc.bv_of(tr) == cc.bv_of(c.eval_bits(b, vals)))
    return h


def h_negate(n, start, sx='var'):
    """abs_ and _negate_if."""
    def h(run, functions):
        c = cc.Circ()
        junk = c.junk(start)
        x = c.operand('a', n, sx)
        g = c.atoms('g', 1)[0]
        f = _fn(functions, bv._negate_if)
        r, m = f(g, list(x), start=start)
        cells = junk + m
        vals = c.eval_mem(cells)
        tx = c.eval_bits(x, vals)
        Wd = n + 1
        X = z3.SignExt(1, cc.bv_of(tx))
        tr = c.eval_bits(r, vals)
        rp = _replay(c, cells, dict(x=x, g=[g, '0']), dict(r=r),
                     lambda iv: dict(r=-iv['x'] if iv['g'] else iv['x']))
        run.oblige('_negate_if.post: sval(r) = IF guard THEN -sval(x) ELSE sval(x), len = n + 1',
                   z3.And(z3.BoolVal(len(r) == n + 1 and
                                     cc.registers_in_range(r, len(cells))),
                          cc.bv_of(tr) == z3.If(c.z(g), -X, X))
                   if len(r) == n + 1 else z3.BoolVal(False), replay=rp)
        a, m2 = _fn(functions, bv.abs_)(list(x), start=start)
        vals2 = c.eval_mem(junk + m2)
        ta = c.eval_bits(a, vals2)
        run.oblige('abs_.post: sval(r) = |sval(x)|, len = n + 1',
                   z3.And(z3.BoolVal(len(a) == n + 1),
                          cc.bv_of(ta) == z3.If(X < 0, -X, X))
                   if len(a) == n + 1 else z3.BoolVal(False))
        run.canary('_negate_if.canary: sval(r) = sval(x)',
                   cc.bv_of(tr) == X if len(r) == n + 1 else z3.BoolVal(True))
    return h


def h_multiplier(nx, ny, start, sx='var', sy='var'):
    """Monolithic: the real multiplier with everything in-lined."""
    def h(run, functions):
        c = cc.Circ()
        junk = c.junk(start)
        x = c.operand('a', nx, sx)
        y = c.operand('b', ny, sy)
        f = _fn(functions, bv.multiplier)
        res, mem = f(list(x), list(y), start=start)
        cells = junk + mem
        vals = c.eval_mem(cells)
        tx, ty = c.eval_bits(x, vals), c.eval_bits(y, vals)
        tr = c.eval_bits(res, vals)
        rp = _replay(c, cells, dict(x=x, y=y), dict(r=res),
                     lambda iv: dict(r=iv['x'] * iv['y']))
        n = nx + ny
        bx = z3.SignExt(n - nx, cc.bv_of(tx))
        by = z3.SignExt(n - ny, cc.bv_of(ty))
        run.oblige('multiplier.post: sval(res) = sval(x) * sval(y)   (exact: width nx+ny)',
                   z3.And(z3.BoolVal(len(res) == n and
                                     cc.registers_in_range(res, len(cells))),
                          cc.bv_of(tr) == bx * by), replay=rp)
        run.canary('multiplier.canary: res = x + y',
                   cc.bv_of(tr) == bx + by)
    return h


def _c99(a, b):
    q = abs(a) // abs(b)
    if (a < 0) != (b < 0):
        q = -q
    return q, a - q * b


def h_divider(nx, ny, start, sx='var', sy='var'):
    """Monolithic restoring divider: C99 truncated division."""
    def h(run, functions):
        c = cc.Circ()
        junk = c.junk(start)
        x = c.operand('a', nx, sx)
        y = c.operand('b', ny, sy)
        f = _fn(functions, bv.restoring_divider)
        quo, rem, mem = f(list(x), list(y), start=start)
        cells = junk + mem
        vals = c.eval_mem(cells)
        tx, ty = c.eval_bits(x, vals), c.eval_bits(y, vals)
        tq, tm = c.eval_bits(quo, vals), c.eval_bits(rem, vals)
        X, Y = cc.sval(tx), cc.sval(ty)
        Q, R = cc.sval(tq), cc.sval(tm)

        def pyspec(iv):
            if iv['y'] == 0:
                return dict(q=None, r=None)
            q, r = _c99(iv['x'], iv['y'])
            return dict(q=q, r=r)
        rp = _replay(c, cells, dict(x=x, y=y), dict(q=quo, r=rem), pyspec)
        W = max(nx, ny, len(quo), len(rem)) + nx + ny + 2

        def sx_(ts):
            return z3.SignExt(W - len(ts), cc.bv_of(ts))
        bX, bY, bQ, bR = sx_(tx), sx_(ty), sx_(tq), sx_(tm)
        zero = z3.BitVecVal(0, W)
        absY = z3.If(bY < zero, -bY, bY)
        absR = z3.If(bR < zero, -bR, bR)
        run.oblige('restoring_divider.post: y # 0 => x = q*y + r, |r| < |y|, sign(r) = sign(x) or r = 0   (C99 truncation)',
                   z3.Implies(bY != zero, z3.And(
                       bX == bQ * bY + bR, absR < absY,
                       z3.Or(bR == zero, (bR < zero) == (bX < zero)))),
                   replay=rp)
        run.oblige('restoring_divider.post: registers address own cells',
                   z3.BoolVal(cc.registers_in_range(quo + rem, len(cells))))
        run.canary('restoring_divider.canary: q = x', Q == X)
    return h
