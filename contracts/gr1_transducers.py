"""Sidecar contracts for `gr1.make_streett_transducer` / `make_rabin_transducer`
and `gr1._controllable_action` (C02, C05).

Proved, per shape, for ALL actions / liveness predicates / initial predicates
and ALL iterate predicates (lists of concrete length L, the predicates in them
uninterpreted):
  1. step conformance  impl <= (plus_one ? SysAction : (EnvAction => SysAction))
  2. memory range      impl /\\ EnvAction => _goal' (and _hold') in range
  3. Moore independence (semantic: impl does not depend on next env values)
  4. initial condition (documented set of C03 with InternalInit = memory init)
  5. frame: variables declared, varlist['impl'].
Under the ASSUMED iterate facts (the contract the solver should establish;
validated at run time on concrete games, see `monitor`), for iterate lists of
length L:
  6. closure of Inv = \\/_j (_goal = j /\\ Y_j) under impl /\\ EnvAction
  7. non-blocking on Inv in the mode's quantifier pattern.
Liveness of infinite plays follows from rank descent by lemma L2 (assumed).
"""
import contextlib
import io
import itertools
import random

import z3

import omega.games.gr1 as gr1
import omega.symbolic.fixpoint as fx
import omega.symbolic.temporal as trl

from ovc import spec, explicit
from ovc.engine import SymBool
from contracts.fixpoint import set_mode, cpre_of, independent_of
from contracts.gr1_init import verdict_spec, QINITS


def h_controllable_action(ctx):
    w = ctx.w
    aut = set_mode(ctx)
    E = w.pred('E', w.ACTION)
    S = w.pred('S', w.ACTION)
    aut.action['env'], aut.action['sys'] = E, S
    T = w.pred('T', w.STATE)
    X = w.pred('Extra', w.ACTION) if ctx.p.get('extra') else None
    f = ctx.fn(gr1._controllable_action)
    r = ctx.call(f, T, aut, extra_action=X, label='_controllable_action')
    tE, tS = w.term(E), w.term(S)
    tgt = spec.primed(w, w.term(T))
    if X is not None:
        tgt = z3.And(tgt, w.term(X))
    body = z3.And(tS, z3.Implies(tE, tgt)) if ctx.p['plus_one'] else z3.Implies(tE, z3.And(tS, tgt))
    if ctx.p['moore']:
        body = spec.forall(w.zs(w.group("env'")), body)
    w.oblige('_controllable_action.post: r == [\\A x\':] (plus_one ? S /\\ (E => T\' /\\ extra) : E => (S /\\ T\' /\\ extra))',
             spec.equiv(w, w.term(r), body))
    w.canary('_controllable_action canary', spec.equiv(w, w.term(r), tS))


def _bitsval(w, name, primed=False):
    """Unsigned value (as z3 bit-vector) of the memory variable `name`."""
    d = w.aut.vars[name + ("'" if primed else '')]
    bits = [z3.Bool(b) for b in d['bitnames']]
    one, zero = z3.BitVecVal(1, 1), z3.BitVecVal(0, 1)
    parts = [z3.If(b, one, zero) for b in reversed(bits)]
    return z3.ZeroExt(4, z3.Concat(*parts) if len(parts) > 1 else parts[0])


def _valid_all(w, t):
    """Validity over every bit declared in the manager (incl. memory bits)."""
    return w.bdd.valid(t) if w.symbolic else w.valid(t)


def h_streett_transducer(ctx):
    w = ctx.w
    aut = set_mode(ctx)
    moore, plus_one = ctx.p['moore'], ctx.p['plus_one']
    cpre = cpre_of(ctx)
    K, J, L = ctx.p['n_holds'], ctx.p['n_goals'], ctx.p['L']
    E = w.pred('E', w.ACTION)
    S = w.pred('S', w.ACTION)
    aut.action['env'], aut.action['sys'] = E, S
    holds = [w.pred(f'H{k}', w.STATE) for k in range(K)]
    goals = [w.pred(f'G{j}', w.STATE) for j in range(J)]
    aut.win['<>[]'], aut.win['[]<>'] = list(holds), list(goals)
    qinit = ctx.p['qinit']
    aut.qinit = qinit
    sys_init = w.const_pred(True) if qinit == r'\A \A' else w.pred('SysInit', w.STATE)
    env_init = w.const_pred(True) if qinit == r'\E \E' else w.pred('EnvInit', w.STATE)
    aut.init['env'], aut.init['sys'] = env_init, sys_init
    z = w.pred('Z', w.STATE)
    yij = [[w.pred(f'Y{j}_{r}', w.STATE) for r in range(L)] for j in range(J)]
    xijk = [[[w.pred(f'X{j}_{r}_{k}', w.STATE) for k in range(K)]
             for r in range(L)] for j in range(J)]
    tE, tS, tz = w.term(E), w.term(S), w.term(z)
    th = [w.term(h) for h in holds]
    tg = [w.term(g) for g in goals]
    # ---- requires: iterate facts (contract of the solver; assumed here)
    facts = list()
    for j in range(J):
        prev = z3.BoolVal(False)
        for r in range(L):
            acc = prev
            for k in range(K):
                x = w.term(xijk[j][r][k])
                facts.append(spec.equiv(w, x, z3.Or(
                    z3.And(th[k], cpre(tE, tS, x)), cpre(tE, tS, prev),
                    z3.And(tg[j], cpre(tE, tS, tz)))))
                acc = z3.Or(acc, x)
            y = w.term(yij[j][r])
            facts.append(spec.equiv(w, y, acc))
            prev = y
        facts.append(spec.subset(w, tz, prev))
    iterate_facts = z3.And(*facts)
    snap_vars = set(aut.vars)
    if w.symbolic:
        f = ctx.fn(gr1.make_streett_transducer)
    else:
        f = gr1.make_streett_transducer
    with contextlib.redirect_stdout(io.StringIO()):
        if ctx.p.get('keyword', not ctx.p.get('moore')):
            # the documented parameter names, given by keyword
            ctx.call(f, z=z, yij=[list(y) for y in yij],
                     xijk=[[list(xk) for xk in xjk] for xjk in xijk], aut=aut,
                     allowed=lambda e: isinstance(e, AssertionError),
                     label='make_streett_transducer')
        else:
            ctx.call(f, z, [list(y) for y in yij],
                     [[list(xk) for xk in xjk] for xjk in xijk], aut,
                     allowed=lambda e: isinstance(e, AssertionError),
                     label='make_streett_transducer')
    impl = w.term(aut.action['impl'])
    # ---- 5. frame
    w.oblige('make_streett_transducer.frame: declares exactly _goal and _goal\' (hint 0..n_goals-1); varlist[impl] = sys variables + _goal',
             z3.BoolVal(set(aut.vars) - snap_vars == {'_goal', "_goal'"}
                        and aut.vars['_goal']['dom'] == (0, J - 1)
                        and list(aut.varlist['impl']) == list(aut.varlist['sys']) + ['_goal']
                        and "impl'" in aut.varlist), kind='frame')
    c, cp = _bitsval(w, '_goal'), _bitsval(w, '_goal', True)
    in_rng = z3.ULE(c, J - 1)
    in_rng_p = z3.ULE(cp, J - 1)
    # ---- 1. conformance
    allowed = tS if plus_one else z3.Implies(tE, tS)
    w.oblige('transducer.post: every allowed step is allowed by the specified component action under the mode\'s causality rule',
             _valid_all(w, z3.Implies(impl, allowed)))
    # ---- 2. memory range
    w.oblige('transducer.post: under the environment action the goal counter stays within its declared range',
             _valid_all(w, z3.Implies(z3.And(impl, tE), z3.And(in_rng, in_rng_p))))
    # ---- 3. Moore independence
    if moore:
        cs = list()
        for b in w.group("env'"):
            c1 = z3.substitute(impl, (w.z(b), z3.BoolVal(True)))
            c0 = z3.substitute(impl, (w.z(b), z3.BoolVal(False)))
            cs.append(_valid_all(w, c1 == c0))
        w.oblige('transducer.post: a Moore implementation does not depend on next environment values (semantic)',
                 z3.And(*cs) if cs else z3.BoolVal(True))
    # ---- 4. init
    tW, tEi, tSi = tz, w.term(env_init), w.term(sys_init)
    verdict, form = verdict_spec(w, qinit, plus_one, tW, tEi, tSi)
    x = w.zs(w.group('env'))
    doc = {r'\A \A': z3.BoolVal(True), r'\E \E': z3.And(tW, tSi),
           r'\A \E': form, r'\E \A': spec.forall(x, form)}[qinit]
    w.oblige('transducer.post: init[impl] == documented initial set /\\ (_goal = 0)',
             _valid_all(w, w.term(aut.init['impl']) == z3.And(doc, c == 0)))
    # ---- 6./7. under the iterate facts
    Inv = z3.Or(*[z3.And(c == j, w.term(yij[j][L - 1])) for j in range(J)])
    Invp = z3.Or(*[z3.And(cp == j, spec.primed(w, w.term(yij[j][L - 1])))
                   for j in range(J)])
    hyps = [iterate_facts]
    w.oblige(f'transducer (iterates of length {L}): Inv = \\/_j (_goal = j /\\ Y_j) is closed under allowed steps when the environment keeps its action',
             _valid_all(w, z3.Implies(z3.And(Inv, impl, tE), Invp)), hyps=hyps,
             kind='bounded-L')
    mem_p = [z3.Bool(b) for b in aut.vars["_goal'"]['bitnames']]
    yp = w.zs(w.group("sys'")) + mem_p
    xp = w.zs(w.group("env'"))
    if moore:
        enabled = spec.exists(yp, spec.forall(xp, impl))
    else:
        enabled = spec.forall(xp, spec.exists(yp, impl))
    w.oblige(f'transducer (iterates of length {L}): never blocks on Inv (a step is allowed for every next environment value if Mealy; one choice for all if Moore)',
             _valid_all(w, z3.Implies(Inv, enabled)), hyps=hyps, kind='bounded-L')
    # ---- 8. progress (ranking argument of the liveness proof): from a state of
    # Inv with _goal = j whose FIRST trap in the order (r, k) is x[j][r][k], every
    # allowed step under the environment action either (A) serves goal j and
    # moves the counter to (j + 1) mod n_goals inside z, or keeps the counter
    # and (B) lands in an earlier trap, or (C) stays in that trap with h_k true.
    tzp = spec.primed(w, tz)
    for j in range(J):
        order = [(r, k) for r in range(L) for k in range(K)]
        U = {pk: w.term(xijk[j][pk[0]][pk[1]]) for pk in order}
        Up = {pk: spec.primed(w, U[pk]) for pk in order}
        A = z3.And(tg[j], cp == (j + 1) % J, tzp)
        cases = list()
        for n_, pk in enumerate(order):
            earlier = order[:n_]
            first = z3.And(U[pk], *[z3.Not(U[q]) for q in earlier])
            lower = z3.Or(*[Up[q] for q in earlier]) if earlier else z3.BoolVal(False)
            cases.append(z3.Implies(first, z3.Or(A, z3.And(
                cp == j, z3.Or(lower, z3.And(th[pk[1]], Up[pk]))))))
        w.oblige(f'transducer (iterates of length {L}): progress: every allowed step from Inv with _goal = j serves goal j and advances the counter to (j + 1) mod n_goals, or moves to an earlier trap, or stays in the first trap x[j][r][k] with h_k true',
                 _valid_all(w, z3.Implies(z3.And(Inv, c == j, impl, tE), z3.And(*cases))),
                 hyps=hyps, kind='bounded-L')
    if J > 1:
        w.canary('transducer canary: the counter never advances',
                 _valid_all(w, z3.Implies(z3.And(Inv, impl, tE), cp == c)), hyps=hyps)
    w.oblige('transducer: admitted initial states are inside Inv when the environment\'s initial condition holds',
             _valid_all(w, z3.Implies(z3.And(w.term(aut.init['impl']), tEi, verdict), Inv))
             if qinit != r'\A \A' else z3.BoolVal(True), hyps=hyps, kind='bounded-L')
    w.canary('transducer canary: impl == SysAction',
             _valid_all(w, impl == tS))
    w.canary('transducer canary: iterate facts are contradictory',
             z3.Not(iterate_facts))


FUNCTIONS = dict(_controllable_action=h_controllable_action,
                 make_streett_transducer=h_streett_transducer)


def h_rabin_transducer(ctx):
    w = ctx.w
    aut = set_mode(ctx)
    moore, plus_one = ctx.p['moore'], ctx.p['plus_one']
    K, J, T, Lx = ctx.p['n_holds'], ctx.p['n_goals'], ctx.p['T'], ctx.p['L']
    E = w.pred('E', w.ACTION)
    S = w.pred('S', w.ACTION)
    aut.action['env'], aut.action['sys'] = E, S
    holds = [w.pred(f'H{k}', w.STATE) for k in range(K)]
    goals = [w.pred(f'G{j}', w.STATE) for j in range(J)]
    aut.win['<>[]'], aut.win['[]<>'] = list(holds), list(goals)
    qinit = ctx.p['qinit']
    aut.qinit = qinit
    sys_init = w.const_pred(True) if qinit == r'\A \A' else w.pred('SysInit', w.STATE)
    env_init = w.const_pred(True) if qinit == r'\E \E' else w.pred('EnvInit', w.STATE)
    aut.init['env'], aut.init['sys'] = env_init, sys_init
    zk = [w.pred(f'Z{t}', w.STATE) for t in range(T)]
    yki = [[w.pred(f'Y{t}_{k}', w.STATE) for k in range(K)] for t in range(T)]
    xkijr = [[[[w.pred(f'X{t}_{k}_{j}_{i}', w.STATE) for i in range(Lx)]
               for j in range(J)] for k in range(K)] for t in range(T)]
    tE, tS = w.term(E), w.term(S)
    snap_vars = set(aut.vars)
    f = ctx.fn(gr1.make_rabin_transducer) if w.symbolic else gr1.make_rabin_transducer
    with contextlib.redirect_stdout(io.StringIO()):
        if ctx.p.get('keyword', not ctx.p.get('moore')):
            ctx.call(f, zk=list(zk), yki=[list(y) for y in yki],
                     xkijr=[[[list(xr) for xr in xjr] for xjr in xijr] for xijr in xkijr],
                     aut=aut, allowed=lambda e: isinstance(e, AssertionError),
                     label='make_rabin_transducer')
        else:
            ctx.call(f, list(zk), [list(y) for y in yki],
                     [[[list(xr) for xr in xjr] for xjr in xijr] for xijr in xkijr],
                     aut, allowed=lambda e: isinstance(e, AssertionError),
                     label='make_rabin_transducer')
    impl = w.term(aut.action['impl'])
    w.oblige('make_rabin_transducer.frame: declares exactly _hold (0..n_holds, last value = none), _goal (0..n_goals-1) and their primed copies; varlist[impl] = sys variables + _hold + _goal',
             z3.BoolVal(set(aut.vars) - snap_vars == {'_goal', "_goal'", '_hold', "_hold'"}
                        and aut.vars['_goal']['dom'] == (0, J - 1)
                        and aut.vars['_hold']['dom'] == (0, K)
                        and list(aut.varlist['impl']) == list(aut.varlist['sys']) + ['_hold', '_goal']
                        and "impl'" in aut.varlist), kind='frame')
    c, cp = _bitsval(w, '_goal'), _bitsval(w, '_goal', True)
    h, hp = _bitsval(w, '_hold'), _bitsval(w, '_hold', True)
    allowed = tS if plus_one else z3.Implies(tE, tS)
    w.oblige('rabin transducer.post: every allowed step is allowed by the specified component action under the mode\'s causality rule',
             _valid_all(w, z3.Implies(impl, allowed)))
    w.oblige('rabin transducer.post: under the environment action both memory variables stay within their declared ranges',
             _valid_all(w, z3.Implies(z3.And(impl, tE), z3.And(
                 z3.ULE(c, J - 1), z3.ULE(cp, J - 1), z3.ULE(h, K), z3.ULE(hp, K)))))
    if moore:
        cs = list()
        for b in w.group("env'"):
            c1 = z3.substitute(impl, (w.z(b), z3.BoolVal(True)))
            c0 = z3.substitute(impl, (w.z(b), z3.BoolVal(False)))
            cs.append(_valid_all(w, c1 == c0))
        w.oblige('rabin transducer.post: a Moore implementation does not depend on next environment values (semantic)',
                 z3.And(*cs) if cs else z3.BoolVal(True))
    tW, tEi, tSi = w.term(zk[-1]), w.term(env_init), w.term(sys_init)
    verdict, form = verdict_spec(w, qinit, plus_one, tW, tEi, tSi)
    x = w.zs(w.group('env'))
    doc = {r'\A \A': z3.BoolVal(True), r'\E \E': z3.And(tW, tSi),
           r'\A \E': form, r'\E \A': spec.forall(x, form)}[qinit]
    w.oblige('rabin transducer.post: init[impl] == documented initial set (over the LAST iterate zk[-1]) /\\ (_goal = 0 /\\ _hold = none)',
             _valid_all(w, w.term(aut.init['impl']) == z3.And(doc, c == 0, h == K)))
    # ---- progress (ranking argument of the recurrence part of the liveness proof);
    # universally quantified over allowed steps, so the open findings about
    # BLOCKING states (C05-F3, C05-stale-hold) do not affect it
    tg = [w.term(g) for g in goals]
    tzk = [w.term(z) for z in zk]
    w.oblige('rabin transducer.post: progress: the goal counter changes only at its own goal, to (j + 1) mod n_goals',
             _valid_all(w, z3.Implies(z3.And(impl, tE), z3.Or(
                 cp == c, *[z3.And(c == j, tg[j], cp == (j + 1) % J) for j in range(J)]))))
    cpre = cpre_of(ctx)
    for i in range(K):
        for j in range(J):
            alts = list()
            for t in range(T):
                basin = tzk[t - 1] if t > 0 else z3.BoolVal(False)
                rim = z3.And(tzk[t], z3.Not(basin), z3.Not(cpre(tE, tS, basin)))
                xs = [w.term(x) for x in xkijr[t][i][j]]
                down = z3.Or(*[z3.And(xs[r], z3.Not(xs[r - 1]), spec.primed(w, xs[r - 1]))
                               for r in range(1, Lx)]) if Lx > 1 else z3.BoolVal(False)
                alts.append(z3.And(rim, z3.Not(tg[j]), down))
                if J == 1:
                    alts.append(z3.And(rim, tg[j], spec.primed(w, w.term(yki[t][i]))))
            w.oblige('rabin transducer.post: progress: a step that keeps the persistence index i and the goal counter j moves to a strictly lower attractor layer of goal j in x[t][i][j] (t = the outer layer whose rim holds the state)',
                     _valid_all(w, z3.Implies(z3.And(impl, tE, h == i, hp == i, c == j, cp == j),
                                              z3.Or(*alts))))
    if J > 1:
        w.canary('rabin transducer canary: the goal counter never advances',
                 _valid_all(w, z3.Implies(z3.And(impl, tE), cp == c)))
    w.canary('rabin transducer canary: impl == SysAction', _valid_all(w, impl == tS))


FUNCTIONS['make_rabin_transducer'] = h_rabin_transducer
