"""Sidecar contracts / translation validation for `omega.symbolic.codegen` (C13).

(a) every program emitted by `dumps_bdd_as_code` in the run is parsed (Python
    `ast`; the C target is mapped token-wise first) into z3 definitions of the
    latches and `out_bits[name] == root_name(bits)` is PROVED for all bit values,
    the root functions being read off the real `dd` manager as truth tables;
(b) `_dumps_node` / `_latch_ref` / `_latch_name`: complete case analysis on
    duck-typed nodes;
(c) integer <-> bit conversion (digit-string code): exhaustive windows, bounded;
(d) the whole generated module is executed on every state of small instances.
"""
import ast
import itertools
import random
import re

import z3

import omega.logic.bitvector as bv
import omega.symbolic.codegen as cg
import omega.symbolic.temporal as trl

from ovc import denote
from ovc import engine as eng


# ---------------------------------------------------------------------------
# (a) translation validation of emitted straight-line code

def _c_statements(code):
    """Split emitted C into statements: `//` comments dropped, statements end at
    a `;` outside parentheses.  Raises ValueError if the text is not a sequence
    of `;`-terminated assignments `<lvalue> = <expression>` (C has no
    line-based statement end: a missing `;` merges two assignments)."""
    text = re.sub(r'/\*.*?\*/', ' ', code, flags=re.S)
    text = '\n'.join(line.split('//', 1)[0] for line in text.splitlines())
    stmts, cur, depth = list(), list(), 0
    for ch in text:
        if ch == '(':
            depth += 1
        elif ch == ')':
            depth -= 1
            if depth < 0:
                raise ValueError('unbalanced parenthesis in emitted C')
        if ch == ';' and depth == 0:
            stmts.append(''.join(cur).strip())
            cur = list()
        else:
            cur.append(ch)
    if depth != 0:
        raise ValueError('unbalanced parenthesis in emitted C')
    if ''.join(cur).strip():
        raise ValueError('emitted C ends in a statement that is not terminated by ";": '
                         + ''.join(cur).strip()[:80])
    for st in stmts:
        # exactly one assignment operator outside parentheses
        d, n_assign, k = 0, 0, 0
        while k < len(st):
            ch = st[k]
            if ch == '(':
                d += 1
            elif ch == ')':
                d -= 1
            elif ch == '=' and d == 0:
                if st[k:k + 2] == '==':
                    k += 1
                elif k > 0 and st[k - 1] in '!<>':
                    pass
                else:
                    n_assign += 1
            k += 1
        if n_assign != 1:
            raise ValueError(f'emitted C statement is not a single assignment ({n_assign} "=" outside parentheses): '
                             + ' '.join(st.split())[:100])
    return stmts


def _c_to_py(code):
    out = list()
    for st in _c_statements(code):
        line = ' '.join(st.split())
        line = line.replace('&&', ' and ').replace('||', ' or ')
        line = re.sub(r'!(?!=)', ' not ', line)
        line = re.sub(r'\btrue\b', 'True', line)
        line = re.sub(r'\bfalse\b', 'False', line)
        out.append(line)
    return '\n'.join(out)


class CodeSem:
    """z3 meaning of the emitted assignments."""

    def __init__(self, bit_of_expr):
        self.env = dict()
        self.out = dict()
        self.bit_of_expr = bit_of_expr     # (var, index) or name -> z3 Bool

    def run(self, code):
        tree = ast.parse(code)
        for st in tree.body:
            if not isinstance(st, ast.Assign) or len(st.targets) != 1:
                raise ValueError(f'unexpected statement {ast.dump(st)[:80]}')
            tgt = st.targets[0]
            val = self.ev(st.value)
            if isinstance(tgt, ast.Name):
                if tgt.id in self.env:
                    raise ValueError(f'latch {tgt.id} assigned twice')
                self.env[tgt.id] = val
            elif (isinstance(tgt, ast.Subscript)
                  and isinstance(tgt.value, ast.Name)
                  and tgt.value.id == 'out_bits'):
                self.out[ast.literal_eval(tgt.slice)] = val
            else:
                raise ValueError('unexpected assignment target')
        return self.out

    def ev(self, e):
        if isinstance(e, ast.Constant) and isinstance(e.value, bool):
            return z3.BoolVal(e.value)
        if isinstance(e, ast.Name):
            if e.id in self.env:
                return self.env[e.id]
            if e.id.startswith('latch_'):
                raise ValueError(f'latch {e.id} used before its definition')
            return self.bit_of_expr(e.id)
        if isinstance(e, ast.BoolOp):
            vs = [self.ev(v) for v in e.values]
            return z3.And(*vs) if isinstance(e.op, ast.And) else z3.Or(*vs)
        if isinstance(e, ast.UnaryOp) and isinstance(e.op, ast.Not):
            return z3.Not(self.ev(e.operand))
        if isinstance(e, ast.Subscript):
            inner = e.value
            if isinstance(inner, ast.Name):
                # bitvectors["b"]  (Boolean-valued variable)
                assert inner.id == 'bitvectors'
                return self.bit_of_expr(ast.literal_eval(e.slice))
            # bitvectors["x"][i]
            i = ast.literal_eval(e.slice)
            var = ast.literal_eval(inner.slice)
            assert inner.value.id == 'bitvectors'
            return self.bit_of_expr((var, i))
        raise ValueError(f'unexpected expression {ast.dump(e)[:80]}')


def _tt_term(bdd, u, z):
    if u == bdd.true:
        return z3.BoolVal(True)
    if u == bdd.false:
        return z3.BoolVal(False)
    supp = sorted(bdd.support(u))
    cubes = [z3.And(*[z(k) if v else z3.Not(z(k)) for k, v in d.items()])
             for d in bdd.pick_iter(u, care_vars=supp)]
    return z3.Or(*cubes) if cubes else z3.BoolVal(False)


def validate_program(code, roots, bdd, lang, bit_of_expr, z):
    """Return (n_outputs, [disagreements])."""
    sem = CodeSem(bit_of_expr)
    try:
        text = _c_to_py(code) if lang == 'c' else code
        out = sem.run(text)
    except Exception as e:
        return 0, [dict(name='emitted code is well-formed straight-line code',
                        error=repr(e), code=code[:400])]
    bad = list()
    if set(out) != set(roots):
        bad.append(dict(name='emitted code assigns exactly the requested roots',
                        got=sorted(out), want=sorted(roots)))
    for name, u in roots.items():
        if name not in out:
            continue
        want = _tt_term(bdd, u, z)
        st, model, _, _ = eng.check_sat([out[name] != want])
        if st != 'unsat':
            wit = None
            if model is not None:
                wit = {str(d): str(model[d]) for d in model.decls()}
            bad.append(dict(name=f'emitted code evaluates root "{name}" to the BDD\'s value on every input',
                            status=st, input=wit, code=code[:600]))
    return len(roots), bad


def _managers():
    import dd.autoref as autoref
    ms = [('autoref', autoref.BDD)]
    try:
        import dd.cudd as cudd
        ms.append(('cudd', cudd.BDD))
    except ImportError:
        pass
    return ms


def tv_boolean_programs(seed, n_random, nbits):
    """Programs for roots over plain bits (no renaming), both back ends and
    both target languages."""
    def run():
        rnd = random.Random(seed)
        programs = 0
        fails = list()
        samples = list()
        for mname, M in _managers():
            bdd = M()
            bits = [f'b{i}' for i in range(nbits)]
            bdd.declare(*bits)
            zs = {b: z3.Bool(b) for b in bits}
            tables = list()
            if nbits <= 2:
                tables = list(itertools.product([False, True], repeat=2 ** nbits))
            else:
                for _ in range(n_random):
                    p = rnd.choice([0.2, 0.5, 0.8])
                    tables.append(tuple(rnd.random() < p for _ in range(2 ** nbits)))
            fns = list()
            for tt in tables:
                u = bdd.false
                for idx, vals in enumerate(itertools.product([False, True], repeat=nbits)):
                    if tt[idx]:
                        u |= bdd.cube(dict(zip(bits, vals)))
                fns.append(u)
            # several roots per program (shared nodes, complemented edges)
            groups = [fns[i:i + 3] for i in range(0, len(fns), 3)]
            for grp in groups:
                roots = {f'out{j}': u for j, u in enumerate(grp)}
                for lang in ('python', 'c'):
                    code = cg.dumps_bdd_as_code(roots, bdd, lang=lang)
                    n, bad = validate_program(
                        code, roots, bdd, lang, lambda e: zs[e], zs.__getitem__)
                    programs += 1
                    for b in bad:
                        b['manager'] = mname
                        b['lang'] = lang
                    fails.extend(bad)
                    if len(samples) < 2:
                        samples.append(code[:300])
        return dict(records=[], stats=dict(), functions=_FUNS,
                    bounded=dict(evaluations=programs, programs=programs,
                                 samples=samples, failures=fails))
    return run


_FUNS = {f'omega.symbolic.codegen.{n}': dict(
    source_lines=0, cut={}, stubs=[],
    dropped='run natively on the real dd manager (needs structural node attributes); its OUTPUT is validated per program')
    for n in ('dumps_bdd_as_code', '_collect_layers', '_dumps_layer', '_dumps_node',
              '_latch_ref', '_latch_name', '_register_nodes', '_append_sep')}


# ---------------------------------------------------------------------------
# (b) per-node emission: complete case analysis on duck-typed nodes

class _N:
    def __init__(self, nid, var=None, low=None, high=None, negated=False):
        self.nid, self.var, self.low, self.high, self.negated = nid, var, low, high, negated

    def __int__(self):
        return self.nid


class _M:
    def __init__(self, nodes):
        self.nodes = nodes

    def _add_int(self, i):
        return self.nodes[i]


def h_dumps_node(run, functions):
    from ovc import cutloops
    f, info = cutloops.extract(cg._dumps_node)
    functions[info['function']] = dict(info, stubs=[])
    g, info = cutloops.extract(cg._latch_ref)
    functions[info['function']] = dict(info, stubs=[])
    n_cases = 0
    for lang in ('python', 'c'):
        syntax = cg.languages[lang]
        for low_term, high_term, low_neg, high_neg, ren, nid in itertools.product(
                (False, True), (False, True), (False, True), (False, True),
                (False, True), (7, -7)):
            n_cases += 1
            lo = _N(3, None if low_term else 'p', negated=low_neg)
            hi = _N(-5 if nid < 0 else 5, None if high_term else 'q', negated=high_neg)
            node = _N(nid, 'bitx', lo, hi)
            lines, latches = list(), set()
            renaming = {'bitx': 'bitvectors["x"][2]'} if ren else dict()
            f(nid, lines, latches, syntax, _M({nid: node}), renaming)
            code = '\n'.join(cg._append_sep(ln, syntax) for ln in lines)
            text = _c_to_py(code) if lang == 'c' else code
            L3, L5, BX = z3.Bool('latch_3'), z3.Bool('latch_5n' if nid < 0 else 'latch_5'), z3.Bool('bitx')
            sem = CodeSem(lambda e: BX)
            sem.env = {'latch_3': L3, ('latch_n5' if nid < 0 else 'latch_5'): L5}
            try:
                sem.run(text)
                name = 'latch_n7' if nid < 0 else 'latch_7'
                got = sem.env.get(name)
            except Exception as e:
                got = None
            lo_v = z3.BoolVal(True) if low_term else L3
            hi_v = z3.BoolVal(True) if high_term else L5
            if low_neg:
                lo_v = z3.Not(lo_v)
            if high_neg:
                hi_v = z3.Not(hi_v)
            want = z3.If(BX, hi_v, lo_v)
            run.oblige(f'_dumps_node[{lang}]: emitted line defines latch <=> ite(bit, high, low) with complement marks honoured; latch registered once',
                       z3.And(z3.BoolVal(got is not None and len(lines) == 1 and latches == {name}),
                              (got == want) if got is not None else z3.BoolVal(False)))
    run.canary('_dumps_node canary', z3.BoolVal(n_cases == 0))


# ---------------------------------------------------------------------------
# (c) integer <-> bit conversion: exhaustive windows (bounded)

def conv_window(lim):
    def run():
        fails = list()
        n = 0
        for lo in range(-lim, lim + 1):
            for hi in range(lo, lim + 1):
                t = bv.bitblast_table(dict(x=dict(type='int', dom=(lo, hi)),
                                           b=dict(type='bool')))
                d = t['x']
                L, H = denote.Den(t, lambda b: None).limits('x')
                for v in range(L, H + 1):
                    n += 1
                    try:
                        bits = cg.int_to_bits(v, d['width'])
                        state = {bn: bits[i] for i, bn in enumerate(d['bitnames'])}
                        state['b'] = True
                        back = bv.bitfields_to_ints(state, t)
                        ok = (back['x'] == v and back['b'] is True
                              and all(isinstance(q, bool) for q in bits)
                              and len(bits) >= d['width'])
                    except Exception as e:
                        ok = False
                        back = repr(e)
                    if not ok and len(fails) < 5:
                        fails.append(dict(
                            name='int_to_bits then bitfields_to_ints returns the value (every representable value, negative included)',
                            hint=(lo, hi), value=v, got=str(back)))
        return dict(records=[], stats=dict(), functions={
            f'omega.symbolic.codegen.{k}': dict(source_lines=0, cut={}, stubs=[], dropped='digit-string code: exhaustive window (bounded)')
            for k in ('int_to_bits',)} | {
            f'omega.logic.bitvector.{k}': dict(source_lines=0, cut={}, stubs=[], dropped='exhaustive window (bounded)')
            for k in ('bitfields_to_ints', '_append_sign_bit', 'twos_complement_to_int')},
            bounded=dict(evaluations=n, window=f'hints in -{lim}..{lim}, every representable value', exhaustive=True,
                         failures=fails))
    return run


# ---------------------------------------------------------------------------
# (d) end to end: generate, validate the text, execute on every state

E2E = [
    (dict(x=(1, 6), y=(1, 6)), "y' = (x - y)", ["y'"]),
    (dict(x=(-3, 3), y=(-4, 2)), "y' = x", ["y'"]),
    (dict(x=(-3, 3), y=(0, 3)), r"(x < 0 => y' = 0) /\ (x >= 0 => y' = x)", ["y'"]),
    (dict(x=(-6, -2), y=(-8, -1)), "y' = x - 1", ["y'"]),
    (dict(x=(0, 3), b='bool', y=(0, 3)), r"(b => y' = x) /\ (~ b => y' = 0)", ["y'"]),
    (dict(x=(0, 3), b='bool'), r"b' <=> (x > 1)", ["b'"]),
    (dict(x=(0, 2), y=(0, 2), z=(0, 3)), r"(y' >= x) /\ (z' = y' + 1) /\ (x = 2 => y' # 2 \/ z = 0)", ["y'", "z'"]),
    (dict(x=(-2, 1), y=(-2, 1)), r"(y' + x = 0) \/ (x = -2 /\ y' = y)", ["y'"]),
    # requested outputs that the relation leaves free (unmentioned, or mentioned vacuously)
    (dict(x=(0, 3), y=(0, 3), z=(0, 7), c='bool'), r"(y' = x) /\ (z' >= 0) /\ (c' \/ ~ c')", ["y'", "z'", "c'"]),
    (dict(x=(0, 2), y=(0, 2), z=(-2, 1)), "y' # x", ["y'", "z'"]),
    (dict(x=(0, 1), y=(0, 1), b='bool'), 'TRUE', ["y'", "b'"]),
    # partial relations (some states admit no output) whose forced output depends on two inputs jointly
    (dict(a='bool', b='bool', y='bool'), r"(a <=> b) /\ (y' <=> a)", ["y'"]),
    (dict(x=(0, 3), z=(0, 3), y=(0, 3)), r"(x = z) /\ (y' = x)", ["y'"]),
    (dict(x=(-2, 1), b='bool', y=(-2, 1), c='bool'), r"(b <=> (x < 0)) /\ (y' = x) /\ (c' <=> ~ b)", ["y'", "c'"]),
    # a requested output listed twice
    (dict(x=(-4, 3), b='bool', y=(-4, 3), c='bool'), r"(y' = x + 1 \/ (x = 3 /\ y' = y)) /\ (c' <=> b)", ["y'", "c'", "y'"]),
    # bitfields of more than 10 bits (bit names x_10, x_11 sort before x_2 as strings)
    (dict(x=(0, 2047), y=(0, 2047), b='bool'), r"(y' = x) /\ (b' <=> (x >= 1024))", ["y'", "b'"]),
    (dict(x=(-2000, 2000), y=(-2048, 2047)), "y' = x", ["y'"]),
]


def _encode(t, name, v):
    """Independent two's complement encoding of value v for variable name."""
    d = t[name]
    w = d['width']
    return {bn: bool((v >> i) & 1) for i, bn in enumerate(d['bitnames'])}


def e2e_program(idx, backend):
    decl, formula, out_vars = E2E[idx]

    def run():
        import omega.symbolic.fol as _fol
        import dd.autoref as autoref
        aut = trl.Automaton()
        if backend == 'autoref':
            aut.bdd = autoref.BDD()
        aut.declare_variables(**decl)
        u = aut.add_expr(formula)
        fails = list()
        n = 0
        zs = dict()

        def z(b):
            if b not in zs:
                zs[b] = z3.Bool(b)
            return zs[b]
        den = denote.Den(aut.vars, z)
        rel = den.formula(formula)
        try:
            code = cg.dumps_bdds_as_code(u, out_vars, aut)
            ns = dict(__name__='generated_by_ovc')
            exec(compile(code, '<generated>', 'exec'), ns)
        except Exception as e:
            fails.append(dict(name='dumps_bdds_as_code produces a loadable program', error=repr(e)))
            return dict(records=[], stats=dict(), functions=_FUNS, bounded=dict(
                evaluations=1, programs=1, failures=fails, formula=formula))
        ins = [v for v in decl]
        doms = list()
        for v in ins:
            if decl[v] == 'bool':
                doms.append([False, True])
            else:
                L, H = den.limits(v)
                doms.append(list(range(L, H + 1)))
        t = aut.vars
        total = 1
        for d_ in doms:
            total *= len(d_)
        if total <= 5000:
            all_states = itertools.product(*doms)
        else:
            # large domains: corners, powers of two and a seeded sample
            import random as _random
            rnd_ = _random.Random(idx)
            picks = list()
            for d_ in doms:
                c_ = {d_[0], d_[-1], d_[len(d_) // 2]} | {v for v in d_ if isinstance(v, int) and not isinstance(v, bool) and (abs(v) & (abs(v) - 1)) == 0}
                picks.append(sorted(c_, key=repr)[:16])
            all_states = list(itertools.islice(itertools.product(*picks), 400))
            all_states += [tuple(rnd_.choice(d_) for d_ in doms) for _ in range(300)]
        import logging as _logging
        glog = _logging.getLogger('generated_by_ovc')
        for vals in all_states:
            n += 1
            state = dict(zip(ins, vals))
            # the generated module has its own logger: every third state runs with it enabled at DEBUG
            dbg = (n % 3 == 0)
            old_disable = _logging.root.manager.disable
            if dbg:
                _logging.disable(_logging.NOTSET)
                glog.setLevel(_logging.DEBUG)
                glog.propagate = False
                if not glog.handlers:
                    glog.addHandler(_logging.NullHandler())
            sub = list()
            for v, val in state.items():
                if decl[v] == 'bool':
                    sub.append((z(v), z3.BoolVal(val)))
                else:
                    sub += [(z(b), z3.BoolVal(x)) for b, x in _encode(t, v, val).items()]
            here = z3.substitute(rel, *sub)
            solvable = eng.check_sat([here])[0] == 'sat'
            arg = dict(state)
            try:
                out = ns['step'](arg)
            except Exception as e:
                if len(fails) < 4:
                    fails.append(dict(name='generated step() runs on every state of representable values (negative integers and Booleans included)',
                                      state=str(state), error=repr(e), generated_module_logger='DEBUG' if dbg else 'default'))
                continue
            finally:
                if dbg:
                    glog.setLevel(_logging.NOTSET)
                    _logging.disable(old_disable)
            if not solvable:
                continue
            def admissible(out):
                ok = set(out) == set(out_vars)
                if ok:
                    sub2 = list()
                    for pv, val in out.items():
                        base = pv[:-1]
                        if decl[base] == 'bool':
                            sub2.append((z(pv), z3.BoolVal(bool(val))))
                        else:
                            enc = _encode(t, pv, val)
                            sub2 += [(z(b), z3.BoolVal(x)) for b, x in enc.items()]
                            L, H = den.limits(base)
                            ok = ok and L <= val <= H
                    there = z3.simplify(z3.substitute(here, *sub2))
                    ok = ok and z3.is_true(there)
                return ok
            if not admissible(out) and len(fails) < 4:
                fails.append(dict(
                    name='generated step() returns values for exactly the requested outputs that satisfy the relation with the state',
                    state=str(state), returned=str(out), formula=formula))
            elif n % 4 == 0:
                # a caller that keeps its state in one dict and calls step() on it again
                # (nothing was assigned in between): the answer must again be admissible
                try:
                    out2 = ns['step'](arg)
                    ok2 = admissible(out2)
                except Exception as e:
                    out2, ok2 = repr(e), False
                if not ok2 and len(fails) < 4:
                    fails.append(dict(
                        name='generated step() called a second time on the caller\'s same state dict returns again values that satisfy the relation with the state',
                        state=str(state), first=str(out), second=str(out2)[:200], state_dict_afterwards=str(arg)[:200], formula=formula))
        return dict(records=[], stats=dict(), functions=_FUNS, bounded=dict(
            evaluations=n, programs=1, failures=fails, formula=formula,
            backend=backend, samples=[code[:200]]))
    return run


def tv_synthesized(idx, backend):
    """Translation validation of the compute_bdds text of an e2e program."""
    decl, formula, out_vars = E2E[idx]

    def run():
        import dd.autoref as autoref
        import omega.symbolic.functions as fcn
        aut = trl.Automaton()
        if backend == 'autoref':
            aut.bdd = autoref.BDD()
        aut.declare_variables(**decl)
        u = aut.add_expr(formula)
        out_bits = cg._list_bits(out_vars, aut.vars)
        outputs = fcn.make_functions(u, out_bits, aut.bdd)
        roots = fcn.collect_functions(outputs)
        renaming = cg.map_bits_to_bitvectors(aut.vars)
        zs = dict()

        def z(b):
            if b not in zs:
                zs[b] = z3.Bool(b)
            return zs[b]

        def bit_of_expr(e):
            if isinstance(e, tuple):
                var, i = e
                return z(aut.vars[var]['bitnames'][i])
            return z(e)
        fails = list()
        programs = 0
        for lang in ('python', 'c'):
            code = cg.dumps_bdd_as_code(roots, aut.bdd, lang=lang, renaming=renaming)
            n, bad = validate_program(code, roots, aut.bdd, lang, bit_of_expr, z)
            programs += 1
            fails.extend(bad)
        return dict(records=[], stats=dict(), functions=_FUNS, bounded=dict(
            evaluations=programs, programs=programs, failures=fails,
            formula=formula, backend=backend))
    return run
