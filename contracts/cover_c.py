"""Sidecar contracts for the minimal-cover code (C08, C09, C10).

Proved per declaration shape, for ALL predicates f / care (uninterpreted):
the lattice predicates of `orthotopes.py` against their set definitions over
boxes, `prime_implicants` = maximal boxes inside f, `cover._covers`,
`_concretize_implicants`, `_none_covered`, frame of `setup_aux_vars`.

BOUNDED (exhaustive small instances on the real dd manager): `Context.to_expr`
(C08), minimum cardinality of `cover.minimize` (C09) and exactness of
`cover_enum.minimize` (C10) against an explicit reference that enumerates boxes
and covers in plain Python.
"""
import itertools
import logging
import random

import z3

import omega.symbolic.cover as cov
import omega.symbolic.cover_enum as cov_enum
import omega.symbolic.fol as fol_
import omega.symbolic.orthotopes as lat

from ovc import denote, spec
from ovc.engine import SymBool


def _as_t(r):
    return r.t if isinstance(r, SymBool) else z3.BoolVal(bool(r))


# ---------------------------------------------------------------------------
# proofs: lattice predicates (all f, care)

def h_lattice(ctx):
    w = ctx.w
    c = w.aut
    xs = list(w.shape.sys)
    xbits = w.groups(('sys',))
    f = w.pred('F', xbits)
    care = w.pred('Care', xbits)
    before = {k: dict(v) for k, v in c.vars.items()}
    prm = ctx.call(ctx.fn(lat.setup_aux_vars), f, care, c,
                   allowed=lambda e: isinstance(e, AssertionError),
                   label='setup_aux_vars')
    new = set(c.vars) - set(before)
    want = set()
    for x in xs:
        for p in 'abuv':
            want |= {f'{p}_{x}', f'{p}_{x}_cp'}
    w.oblige('setup_aux_vars.frame: declares exactly a_x, b_x, u_x, v_x and their _cp copies with the hint of x; existing declarations untouched',
             z3.BoolVal(new == want and all(c.vars[k] == v for k, v in before.items())
                        and all(c.vars[n]['dom'] == c.vars[n.split('_')[1]]['dom'] for n in new)),
             kind='frame')
    ctx.call(ctx.fn(lat.setup_lattice), prm, c, label='setup_lattice')
    den = denote.Den(c.vars, w.z)
    W = denote.W
    X = {x: den.var_int(x) for x in xs}
    P = {x: (den.var_int(prm._px[x]['a']), den.var_int(prm._px[x]['b'])) for x in xs}
    Q = {x: (den.var_int(prm._qx[x]['a']), den.var_int(prm._qx[x]['b'])) for x in xs}
    in_p = z3.And(*[z3.And(P[x][0] <= X[x], X[x] <= P[x][1]) for x in xs])
    in_q = z3.And(*[z3.And(Q[x][0] <= X[x], X[x] <= Q[x][1]) for x in xs])
    V = w.valid_goal
    r = ctx.call(ctx.fn(lat.x_in_implicant), prm, c, label='x_in_implicant')
    w.oblige('x_in_implicant.post: x lies in the box [a, b]', V(w.term(r) == in_p))
    ne_p = z3.And(*[P[x][0] <= P[x][1] for x in xs])
    ne_q = z3.And(*[Q[x][0] <= Q[x][1] for x in xs])
    r = ctx.call(ctx.fn(lat._orthotope_nonempty), prm._px, c, label='_orthotope_nonempty')
    w.oblige('_orthotope_nonempty.post: a <= b in every dimension', V(w.term(r) == ne_p))
    r = ctx.call(ctx.fn(lat._orthotope_singleton), prm._px, c, label='_orthotope_singleton')
    w.oblige('_orthotope_singleton.post: a = b in every dimension',
             V(w.term(r) == z3.And(*[P[x][0] == P[x][1] for x in xs])))
    leq = z3.And(*[z3.And(Q[x][0] <= P[x][0], P[x][1] <= Q[x][1]) for x in xs])
    w.oblige('subseteq.post (p_leq_q): box p inside box q, dimension-wise', V(w.term(prm.p_leq_q) == leq))
    xbv = [w.z(b) for b in xbits]
    w.oblige('subseteq: for non-empty p it is set inclusion of the boxes',
             V(z3.Implies(ne_p, leq == spec.forall(xbv, z3.Implies(in_p, in_q)))))
    w.oblige('eq.post (p_eq_q): equal end-points',
             V(w.term(prm.p_eq_q) == z3.And(*[z3.And(P[x][0] == Q[x][0], P[x][1] == Q[x][1]) for x in xs])))
    r = ctx.call(ctx.fn(lat.implicants_intersect), prm, c, label='implicants_intersect')
    w.oblige('implicants_intersect.post: for non-empty boxes, some point lies in both',
             V(z3.Implies(z3.And(ne_p, ne_q), w.term(r) == spec.exists(xbv, z3.And(in_p, in_q)))))
    tf, tc = w.term(f), w.term(care)
    r = ctx.call(ctx.fn(lat.embed_as_implicants), f, prm, c, label='embed_as_implicants')
    fa = spec.subst(tf, [(w.z(b), w.z(a)) for x in xs for b, a in zip(
        w.bits_of([x]), w.bits_of([prm._px[x]['a']]))])
    w.oblige('embed_as_implicants.post: singleton boxes at the points of f',
             V(w.term(r) == z3.And(fa, *[P[x][0] == P[x][1] for x in xs])))
    imp = ctx.call(ctx.fn(lat._implicant_orthotopes), f, prm, c, label='_implicant_orthotopes')
    is_imp_p = z3.And(ne_p, spec.forall(xbv, z3.Implies(in_p, tf)))
    w.oblige('_implicant_orthotopes.post: non-empty boxes all of whose points satisfy f',
             V(w.term(imp) == is_imp_p))
    pr = ctx.call(ctx.fn(lat.prime_implicants), f, prm, c, label='prime_implicants')
    # maximal: no strictly larger implicant (quantify the q parameters)
    qbits = [w.z(b) for q in sorted(prm.q_vars) for b in w.bits_of([q])]
    is_imp_q = z3.And(ne_q, spec.forall(xbv, z3.Implies(in_q, tf)))
    p_eq_q = z3.And(*[z3.And(P[x][0] == Q[x][0], P[x][1] == Q[x][1]) for x in xs])
    w.oblige('prime_implicants.post: exactly the maximal boxes contained in f',
             V(w.term(pr) == z3.And(is_imp_p, spec.forall(qbits, z3.Implies(z3.And(is_imp_q, leq), p_eq_q)))))
    # cover-level predicates on an arbitrary set of boxes
    pbits_names = [b for p in sorted(prm.p_vars) for b in w.bits_of([p])]
    C = w.pred('Cover', pbits_names)
    tC = w.term(C)
    pbits = [w.z(b) for b in pbits_names]
    conc = ctx.call(ctx.fn(cov._concretize_implicants), C, prm, c, label='_concretize_implicants')
    covered = spec.exists(pbits, z3.And(tC, in_p))
    w.oblige('_concretize_implicants.post: the union of the boxes of the cover', V(w.term(conc) == covered))
    r = ctx.call(ctx.fn(cov._covers), C, f, prm, c, label='_covers')
    # requires: every box of the cover is non-empty (covers are sets of primes)
    hyp = w.bdd.valid(z3.Implies(tC, ne_p))
    w.oblige('_covers.post: TRUE iff every point of f lies in some box of the cover (boxes non-empty)',
             z3.Implies(hyp, _as_t(r) == w.bdd.valid(z3.Implies(tf, covered))))
    low = w.pred('Low', xbits)
    r = ctx.call(ctx.fn(cov._none_covered), C, low, prm, c, label='_none_covered')
    w.oblige('_none_covered.post: TRUE iff no point of the given set lies in a box of the cover',
             z3.Implies(hyp, _as_t(r) == w.bdd.valid(z3.Not(z3.And(w.term(low), covered)))))
    # the cover lemma
    w.oblige('cover lemma: boxes inside (f \\/ ~care) that cover f denote g with g /\\ care == f /\\ care',
             z3.Implies(z3.And(w.bdd.valid(z3.Implies(tC, spec.forall(xbv, z3.Implies(in_p, z3.Or(tf, z3.Not(tc)))))),
                               w.bdd.valid(z3.Implies(tf, covered))),
                        w.bdd.valid(z3.And(covered, tc) == z3.And(tf, tc))))
    w.canary('lattice canary: every box is prime', V(w.term(pr)))


# ---------------------------------------------------------------------------
# explicit reference (plain Python)

class Ref:
    def __init__(self, decl):
        self.names = sorted(decl)
        import omega.logic.bitvector as bv
        tab = bv.bitblast_table({k: dict(type='int', dom=v) for k, v in decl.items()})
        d = denote.Den(tab, lambda b: None)
        self.rng = {k: d.limits(k) for k in self.names}
        self.points = list(itertools.product(*[range(self.rng[k][0], self.rng[k][1] + 1) for k in self.names]))

    def boxes(self):
        per = list()
        for k in self.names:
            L, H = self.rng[k]
            per.append([(a, b) for a in range(L, H + 1) for b in range(a, H + 1)])
        return list(itertools.product(*per))

    def inside(self, box, pt):
        return all(a <= v <= b for (a, b), v in zip(box, pt))

    def primes(self, allowed):
        bs = [b for b in self.boxes() if all(pt in allowed for pt in self.points if self.inside(b, pt))]
        out = list()
        for b in bs:
            if not any(o != b and all(oa <= a and bb <= ob for (a, bb), (oa, ob) in zip(b, o)) for o in bs):
                out.append(b)
        return out

    def min_covers(self, f, primes):
        f = list(f)
        if not f:
            return 0, [frozenset()]
        cov_of = [frozenset(i for i, pt in enumerate(f) if self.inside(p, pt)) for p in primes]
        full = frozenset(range(len(f)))
        for k in range(1, len(primes) + 1):
            found = [frozenset(c) for c in itertools.combinations(range(len(primes)), k)
                     if frozenset().union(*[cov_of[i] for i in c]) == full]
            if found:
                return k, found
        return None, []


def _min_size(ref, f, primes):
    """Exact size of a minimum cover of the points `f` by `primes` (branch and
    bound on the point with the fewest covering primes)."""
    f = list(f)
    cov_of = [frozenset(i for i, pt in enumerate(f) if ref.inside(p, pt)) for p in primes]
    by_pt = [[j for j, c in enumerate(cov_of) if i in c] for i in range(len(f))]
    best = [len(f) + 1]

    def go(uncovered, k):
        if not uncovered:
            best[0] = min(best[0], k)
            return
        if k + 1 >= best[0]:
            return
        # lower bound: points whose covering primes are pairwise disjoint sets
        i = min(uncovered, key=lambda i: len(by_pt[i]))
        for j in sorted(by_pt[i], key=lambda j: -len(cov_of[j] & uncovered)):
            go(uncovered - cov_of[j], k + 1)
    go(frozenset(range(len(f))), 0)
    return best[0]


def _all_min_covers(ref, f, primes, kmin, limit=20000):
    """Every cover of `f` by exactly `kmin` of the `primes` (as frozensets of
    prime indices); None if more than `limit` partial branches were needed."""
    f = list(f)
    cov_of = [frozenset(i for i, pt in enumerate(f) if ref.inside(p, pt)) for p in primes]
    by_pt = [[j for j, c in enumerate(cov_of) if i in c] for i in range(len(f))]
    found = set()
    budget = [limit * 50]

    def go(uncovered, chosen):
        budget[0] -= 1
        if budget[0] < 0:
            raise OverflowError
        if not uncovered:
            if len(chosen) == kmin:
                found.add(frozenset(chosen))
            return
        if len(chosen) >= kmin:
            return
        i = min(uncovered, key=lambda i: len(by_pt[i]))
        for j in by_pt[i]:
            if j not in chosen:
                go(uncovered - cov_of[j], chosen | {j})
    try:
        go(frozenset(range(len(f))), frozenset())
    except OverflowError:
        return None
    return sorted(found, key=sorted)


def _has_cyclic_core(ref, f, primes):
    """Some point of `f` remains after taking every essential prime."""
    f = list(f)
    cov = {pt: [p for p in primes if ref.inside(p, pt)] for pt in f}
    ess = {cs[0] for cs in cov.values() if len(cs) == 1}
    rest = [pt for pt in f if not any(ref.inside(p, pt) for p in ess)]
    return bool(rest)


def _raised_in(e):
    import traceback
    tb = traceback.extract_tb(e.__traceback__)
    if not tb:
        return '?'
    last = tb[-1]
    return f'{last.name}: {(last.line or "").strip()[:80]}'


def _mk(decl, backend):
    c = fol_.Context()
    if backend == 'autoref':
        import dd.autoref as autoref
        c.bdd = autoref.BDD()
    c.declare(**decl)
    return c


def _set_to_bdd(c, names, pts):
    u = c.false
    for pt in pts:
        u |= c.assign_from(dict(zip(names, pt)))
    return u


def _cover_boxes(c, cover, prm, names, ref):
    """Boxes of a cover; a variable outside support(f) + support(care) is not
    a dimension of the parameter space: the box spans its whole range."""
    out = list()
    for d in c.pick_iter(cover, care_vars=list(prm.p_vars)):
        out.append(tuple(
            (d[prm._px[k]['a']], d[prm._px[k]['b']]) if k in prm._px else ref.rng[k]
            for k in names))
    return out


def instances(decl, mode, seed, n):
    ref = Ref(decl)
    pts = ref.points
    hint = [pt for pt in pts if all(decl[k][0] <= v <= decl[k][1] for k, v in zip(ref.names, pt))]
    rnd = random.Random(seed)
    out = list()
    if mode == 'all-care-hint':
        # every subset of the hinted grid, care = type hints
        for k in range(1, 2 ** len(hint)):
            f = [hint[i] for i in range(len(hint)) if (k >> i) & 1]
            out.append((f, hint))
        if n and len(out) > n:
            out = rnd.sample(out, n)
    elif mode == 'hint-narrow':
        # type hints narrower than the bit ranges: predicates extending outside
        # the hints, care sets inside / equal to / beyond the hints, and
        # predicates that cover the whole care set (trivial cover)
        outside = [p for p in pts if p not in hint]
        names_ = ref.names
        for i in range(n):
            k = i % 9
            if k == 0:
                care, f = list(hint), [p for p in pts if rnd.random() < 0.4]
            elif k == 1:
                care = list(hint)
                f = list(hint) + [p for p in outside if rnd.random() < 0.4]
            elif k == 2:
                care = [p for p in pts if rnd.random() < 0.7]
                f = [p for p in pts if rnd.random() < 0.4]
            elif k == 3:
                care, f = list(pts), [p for p in pts if rnd.random() < 0.5]
            elif k == 4:
                care = [p for p in hint if rnd.random() < 0.8]
                f = care + [p for p in outside if rnd.random() < 0.5]
            elif k == 5 and len(names_) >= 2:
                # the predicate depends on the first variable only; the care set also
                # on the last one, beyond that variable's hint
                f0 = {v for v in {p[0] for p in pts} if rnd.random() < 0.5} or {pts[0][0]}
                f = [p for p in pts if p[0] in f0]
                lo, hi = decl[names_[-1]]
                thr = rnd.choice(sorted({p[-1] for p in pts}))
                care = [p for p in pts if (p[-1] >= thr if rnd.random() < 0.5 else p[-1] <= thr)
                        and decl[names_[0]][0] <= p[0] <= decl[names_[0]][1]]
            else:
                # care sets bounded on ONE side of the hint only (towards the limits or towards zero)
                j = (i // 9) % len(names_)
                lo, hi = decl[names_[j]]
                side = (k % 2 == 0)
                care = [p for p in pts if (p[j] <= hi if side else p[j] >= lo)
                        and all(decl[names_[m]][0] <= p[m] <= decl[names_[m]][1] for m in range(len(names_)) if m != j)]
                f = [p for p in care if rnd.random() < 0.6]
            if f and care and len(f) != len(pts):
                out.append((f, care))
    elif mode == 'all-but-two':
        # every predicate that misses exactly two points of the grid (care = TRUE):
        # small cyclic cores with pruned branches
        for a, b in itertools.combinations(range(len(pts)), 2):
            out.append(([p for i, p in enumerate(pts) if i not in (a, b)], list(pts)))
        if n and len(out) > n:
            out = rnd.sample(out, n)
    elif mode == 'cyclic-core':
        # sampled larger instances whose covering problem has a non-empty cyclic
        # core (no essential prime covers everything): the branch and bound runs
        tries = 0
        while len(out) < n and tries < 60 * n:
            tries += 1
            care = pts if rnd.random() < 0.7 else [p for p in pts if rnd.random() < 0.9]
            f = [p for p in care if rnd.random() < rnd.choice([0.45, 0.55, 0.65])]
            if not f:
                continue
            allowed = set(f) | (set(pts) - set(care))
            if _has_cyclic_core(ref, f, ref.primes(allowed)):
                out.append((f, care))
    else:
        for i in range(n):
            care = [p for p in pts if rnd.random() < rnd.choice([0.6, 0.9, 1.0])]
            f = [p for p in care if rnd.random() < rnd.choice([0.3, 0.6])]
            if i % 3 == 2:
                # predicates extending outside the care set (and the type hints)
                f = [p for p in pts if rnd.random() < rnd.choice([0.2, 0.5])]
            if f and care and not (len(f) == len(pts)):
                out.append((f, care))
    return ref, out


def cover_check(decl, mode, seed, n, backend, what):
    """what: 'C08' (to_expr), 'C09' (minimize), 'C10' (enumeration)."""
    def run():
        pass      # logging level: set per family by ovc.run._logging_mode (half of the families at DEBUG)
        ref, insts = instances(decl, mode, seed, n)
        names = ref.names
        fails = list()
        evals = 0
        for fpts, cpts in insts:
            evals += 1
            c = _mk(decl, backend)
            f = _set_to_bdd(c, names, fpts)
            care = _set_to_bdd(c, names, cpts)
            if f == c.false or (f == c.true and care == c.true):
                continue
            allowed = set(fpts) | (set(ref.points) - set(cpts))
            desc = dict(f=str(sorted(fpts))[:300], care_excludes=str(sorted(set(ref.points) - set(cpts)))[:200], decl=str(decl))
            try:
                if what == 'C10':
                    covers = cov_enum.minimize(f, care, c)
                else:
                    cover = cov.minimize(f, care, c)
            except AssertionError as e:
                import traceback
                tb = traceback.extract_tb(e.__traceback__)[-1]
                fails.append(dict(name='the covering algorithm terminates without an internal AssertionError',
                                  where=f'{tb.name}:{tb.lineno}', line=tb.line, **desc))
                continue
            except Exception as e:
                import traceback
                tb = traceback.extract_tb(e.__traceback__)[-1]
                fails.append(dict(name='the covering algorithm returns a cover (raises no exception)',
                                  error=repr(e)[:200], where=f'{tb.name}:{tb.lineno}', line=tb.line, **desc))
                continue
            prm = lat.setup_aux_vars(f, care, c)
            primes = ref.primes(allowed)
            if mode == 'cyclic-core' and what == 'C09':
                kmin, allmin = _min_size(ref, fpts, primes), []
            elif mode == 'cyclic-core':
                kmin = _min_size(ref, fpts, primes)
                allmin = _all_min_covers(ref, fpts, primes, kmin)
                if allmin is None:
                    evals -= 1
                    continue        # reference enumeration too large: instance skipped
            else:
                kmin, allmin = ref.min_covers(fpts, primes)
            if what == 'C10':
                got = {frozenset(_cover_boxes(c, cv, prm, names, ref)) for cv in covers}
                want = {frozenset(primes[i] for i in cs) for cs in allmin}
                if got != want and len(fails) < 5:
                    fails.append(dict(name='enumeration returns exactly all minimum-cardinality covers by maximal boxes',
                                      returned=len(got), expected=len(want), sizes=str(sorted({len(g) for g in got})), kmin=kmin, **desc))
                # the other public entry point: formulas of all minimal covers, with the
                # care set given and omitted (omitted = TRUE)
                if evals % 3 == 0 and len(want) <= 6:
                    for care_arg, care_pts in ((care, cpts), (None, ref.points)):
                        if care_arg is None and (len(cpts) == len(ref.points) or evals % 2):
                            continue
                        try:
                            dnfs = cov_enum.to_expr(c, f) if care_arg is None else cov_enum.to_expr(c, f, care=care_arg)
                        except AssertionError as e:
                            if '_enumerate_mincovers_below' in _raised_in(e):
                                continue      # known finding C10-F2, reported by the family above
                            fails.append(dict(name='cover_enum.to_expr terminates without an internal AssertionError',
                                              care_given=care_arg is not None, raised_in=_raised_in(e), **desc))
                            continue
                        except Exception as e:
                            fails.append(dict(name='cover_enum.to_expr returns formulas (raises no exception)', error=repr(e)[:200],
                                              care_given=care_arg is not None, **desc))
                            continue
                        if care_arg is not None and len(dnfs) != len(want) and len(fails) < 5:
                            fails.append(dict(name='cover_enum.to_expr returns one formula per minimum-cardinality cover',
                                              returned=len(dnfs), expected=len(want), **desc))
                        for s_ in dnfs:
                            try:
                                g = c.add_expr(s_.replace('care expression', 'TRUE'))
                            except Exception as e:
                                fails.append(dict(name='each formula of cover_enum.to_expr is accepted by the formula parser', error=repr(e)[:200], text=s_[:300], **desc))
                                break
                            bad_pt = next((pt for pt in care_pts
                                           if (c.let(dict(zip(names, pt)), g) == c.true) != (pt in fpts)), None)
                            if bad_pt is not None:
                                if len(fails) < 5:
                                    fails.append(dict(name='each formula of cover_enum.to_expr agrees with the predicate at every assignment in the care set (care omitted = every assignment)',
                                                      care_given=care_arg is not None, point=str(dict(zip(names, bad_pt))), text=s_[:300], **desc))
                                break
                continue
            boxes = _cover_boxes(c, cover, prm, names, ref)
            if what == 'C09':
                bad = [b for b in boxes if b not in primes]
                uncovered = [pt for pt in fpts if not any(ref.inside(b, pt) for b in boxes)]
                if (bad or uncovered or len(boxes) != kmin) and len(fails) < 5:
                    fails.append(dict(name='the cover consists of maximal boxes inside (predicate or outside care), covers the predicate, and no smaller such cover exists',
                                      not_prime=str(bad)[:200], uncovered=str(uncovered)[:200],
                                      size=len(boxes), minimum=kmin, **desc))
                if evals % 3 == 0 and backend != 'autoref':
                    # the same algorithm through its other entry point (second manager for the search; it
                    # creates the second manager with the default back end and copies between the two,
                    # which dd supports only between managers of one kind: default back end only)
                    try:
                        cover2 = cov._minimize_two_managers(f, care, c)
                        prm2 = lat.setup_aux_vars(f, care, c)
                        boxes2 = _cover_boxes(c, cover2, prm2, names, ref)
                    except Exception as e:
                        if len(fails) < 5:
                            fails.append(dict(name='the covering algorithm, entered through _minimize_two_managers, returns a cover (raises no exception)',
                                              error=repr(e)[:200], raised_in=_raised_in(e), **desc))
                        continue
                    bad = [b for b in boxes2 if b not in primes]
                    uncovered = [pt for pt in fpts if not any(ref.inside(b, pt) for b in boxes2)]
                    if (bad or uncovered or len(boxes2) != kmin) and len(fails) < 5:
                        fails.append(dict(name='the cover returned through _minimize_two_managers consists of maximal boxes inside (predicate or outside care), covers the predicate, and no smaller such cover exists',
                                          not_prime=str(bad)[:200], uncovered=str(uncovered)[:200],
                                          size=len(boxes2), minimum=kmin, **desc))
                continue
            # C08: printed formula
            for opts in (dict(), dict(show_dom=True), dict(show_limits=True), dict(show_dom=True, show_limits=True, comment=False)):
                try:
                    s = cov.dumps_cover(cover, f, care, c, **opts)
                except AssertionError as e:
                    fails.append(dict(name='dumps_cover (own postcondition) does not fail', options=str(opts),
                                      raised_in=_raised_in(e), **desc))
                    continue
                except Exception as e:
                    fails.append(dict(name='dumps_cover returns a formula (raises no exception)', error=repr(e)[:200], options=str(opts), **desc))
                    continue
                expr = s.replace('care expression', 'TRUE')
                try:
                    g = c.add_expr(expr)
                except Exception as e:
                    fails.append(dict(name='the printed formula is accepted by the formula parser', options=str(opts), error=repr(e)[:200], text=s[:300], **desc))
                    continue
                for pt in ref.points:
                    asg = dict(zip(names, pt))
                    gv = c.let(asg, g) == c.true
                    if pt in cpts and gv != (pt in fpts):
                        if len(fails) < 5:
                            fails.append(dict(name='the printed formula agrees with the predicate at every assignment in the care set',
                                              point=str(asg), options=str(opts), text=s[:300], **desc))
                        break
            # the public entry point, with the care set given and omitted (= TRUE)
            for opts in (dict(), dict(show_dom=True), dict(show_limits=True)):
                for care_arg, care_pts in ((care, cpts), (None, ref.points)):
                    try:
                        s = c.to_expr(f, care=care_arg, **opts)
                        g = c.add_expr(s.replace('care expression', 'TRUE'))
                    except Exception as e:
                        if len(fails) < 5:
                            fails.append(dict(name='Context.to_expr returns a formula that the parser accepts (raises no exception)',
                                              error=repr(e)[:200], options=str(opts), raised_in=_raised_in(e), care='given' if care_arg is not None else 'omitted', **desc))
                        continue
                    cset = set(care_pts)
                    for pt in ref.points:
                        if pt in cset and (c.let(dict(zip(names, pt)), g) == c.true) != (pt in fpts):
                            if len(fails) < 5:
                                fails.append(dict(name='Context.to_expr: the printed formula agrees with the predicate at every assignment in the care set (care omitted = TRUE)',
                                                  point=str(dict(zip(names, pt))), options=str(opts),
                                                  care='given' if care_arg is not None else 'omitted', text=s[:300], **desc))
                            break
            uncovered = [pt for pt in fpts if not any(ref.inside(b, pt) for b in boxes)]
            dirty = [(b, pt) for b in boxes for pt in cpts if ref.inside(b, pt) and pt not in fpts]
            if (uncovered or dirty) and len(fails) < 5:
                fails.append(dict(name='each disjunct is a non-empty box with no care point outside the predicate; together they contain the predicate',
                                  uncovered=str(uncovered)[:200], dirty=str(dirty)[:200], **desc))
        return dict(records=[], stats=dict(), functions={
            'omega.symbolic.cover.minimize': dict(source_lines=0, cut={}, stubs=[], dropped='run natively on real dd: bounded (branch and bound over the cyclic core)'),
            'omega.symbolic.cover_enum.minimize': dict(source_lines=0, cut={}, stubs=[], dropped='run natively on real dd: bounded'),
            'omega.symbolic.cover.dumps_cover': dict(source_lines=0, cut={}, stubs=[], dropped='run natively: bounded'),
            'omega.symbolic.orthotopes.list_expr': dict(source_lines=0, cut={}, stubs=[], dropped='run natively: bounded')},
            bounded=dict(evaluations=evals, decl=str(decl), mode=mode, backend=backend,
                         exhaustive=(mode == 'all-care-hint' and not n), failures=fails[:6]))
    return run


def wide_display(backend):
    """BOUNDED: printing with `show_limits` / `show_dom` for variables of 10 and
    more bits (limits of four digits): the text is accepted by the parser and
    denotes the predicate on the care set.  The evaluator is the library's own
    `add_expr` (C06), compared as BDDs."""
    def run():
        fails = list()
        n = 0
        cases = [
            (dict(x=(0, 1000)), [r'(x >= 100) /\ (x <= 900)', r'(x = 7) \/ (x > 1000)', 'x <= 1000'], [None, r'x \in 0..1000']),
            (dict(x=(-600, 700), y=(0, 1)), [r'(x < -512) \/ (y = 1)', r'(x >= -600) /\ (x <= 700) /\ (y = 0)'], [None, r'(x \in -600..700) /\ (y \in 0..1)']),
            (dict(x=(-2000, -1)), [r'x <= -1025', r'(x >= -2000) /\ (x # -1500)'], [None]),
        ]
        for decl, preds, cares in cases:
            for ptxt in preds:
                for ctxt in cares:
                    for opts in (dict(show_limits=True), dict(show_dom=True), dict(show_limits=True, show_dom=True), dict()):
                        n += 1
                        c = _mk(decl, backend)
                        f = c.add_expr(ptxt)
                        care = c.add_expr(ctxt) if ctxt else None
                        try:
                            s = c.to_expr(f, care=care, **opts)
                            g = c.add_expr(s.replace('care expression', 'TRUE'))
                        except AssertionError as e:
                            if '_clip_subrange' in _raised_in(e):
                                continue      # open finding C08-show-dom-box-outside-hints
                            fails.append(dict(name='Context.to_expr returns a formula that the parser accepts (wide variables)',
                                              error=repr(e)[:160], predicate=ptxt, care=str(ctxt), options=str(opts), decl=str(decl)))
                            continue
                        except Exception as e:
                            if len(fails) < 6:
                                fails.append(dict(name='Context.to_expr returns a formula that the parser accepts (wide variables)',
                                                  error=repr(e)[:160], predicate=ptxt, care=str(ctxt), options=str(opts), decl=str(decl)))
                            continue
                        cu = care if care is not None else c.true
                        if (g & cu) != (f & cu) and len(fails) < 6:
                            fails.append(dict(name='the printed formula agrees with the predicate on the care set (wide variables)',
                                              predicate=ptxt, care=str(ctxt), options=str(opts), text=s[-200:], decl=str(decl)))
        return dict(records=[], stats=dict(), functions={}, bounded=dict(evaluations=n, backend=backend, failures=fails[:6]))
    return run
