"""Iterate facts of the GR(1) solvers, evaluated explicitly (concrete world).

These are the facts that `make_streett_transducer` / `make_rabin_transducer`
REQUIRE of the lists returned by the solvers.  In the symbolic proofs of the
solvers only their structure (lengths, last element) is carried through the
loop cuts; the semantic facts are checked here on the real code with the real
`dd` manager, for the concrete games of replays and sweeps (bounded).
"""


def _fail(w, name, detail=''):
    w.fail(name, detail)


def streett(w, gm, hs, gl, z, yij, xijk, tt):
    """gm: explicit.Game; hs, gl: explicit hold / goal sets; tt(node) -> set."""
    Z = tt(z)
    cz = gm.cpre(Z)
    ok = len(yij) == len(xijk) == len(gl)
    if not ok:
        return _fail(w, 'solve_streett_game.iterates: one list of iterates per recurrence predicate',
                     f'len(yij)={len(yij)} len(xijk)={len(xijk)} goals={len(gl)}')
    for j, g in enumerate(gl):
        yj, xjk = yij[j], xijk[j]
        if len(yj) != len(xjk) or not yj:
            return _fail(w, 'solve_streett_game.iterates: as many trap layers as attractor iterates, at least one',
                         f'goal {j}: {len(yj)} vs {len(xjk)}')
        goal = g & cz
        prev = set()
        for r, (y, xk) in enumerate(zip(yj, xjk)):
            if len(xk) != len(hs):
                return _fail(w, 'solve_streett_game.iterates: one trap per persistence predicate in every layer')
            cy = gm.cpre(prev)
            acc = set(prev)
            for k, h in enumerate(hs):
                want = gm.gfp(lambda X, h=h: (h & gm.cpre(X)) | cy | goal)
                if tt(xk[k]) != want:
                    return _fail(w, 'solve_streett_game.iterates: x[j][r][k] == nu X. (h_k /\\ CPre X) \\/ CPre y[j][r-1] \\/ (g_j /\\ CPre z)',
                                 f'j={j} r={r} k={k}')
                acc |= want
            if tt(y) != acc:
                return _fail(w, 'solve_streett_game.iterates: y[j][r] == y[j][r-1] \\/ \\/_k x[j][r][k]', f'j={j} r={r}')
            prev = acc
        if not Z <= prev:
            return _fail(w, 'solve_streett_game.iterates: z <= y[j][last]', f'j={j}')
    w.checked.append('solve_streett_game.iterates explicit')


def attractor_layers(gm, inside, goal, xr, tt):
    """xr must be the layers x_1 <= x_2 <= ... of mu X. (CPre X \\/ goal) /\\ inside,
    ending at the fixpoint."""
    prev = set()
    for i, x in enumerate(xr):
        want = ((gm.cpre(prev) | goal) & inside) | prev
        if tt(x) != want:
            return f'layer {i} is not F(layer {i - 1}) \\/ layer {i - 1}'
        prev = want
    if not xr:
        return 'no layers'
    if ((gm.cpre(prev) | goal) & inside) | prev != prev:
        return 'last layer is not the fixpoint'
    return None


def rabin(w, gm, hs, gl, zk, yki, xkijr, tt):
    if not (len(zk) == len(yki) == len(xkijr) >= 1):
        return _fail(w, 'solve_rabin_game.iterates: zk, yki, xkijr have the same positive length',
                     f'{len(zk)} {len(yki)} {len(xkijr)}')
    zprev = set()
    for t, (z, yi, xijr) in enumerate(zip(zk, yki, xkijr)):
        if len(yi) != len(hs) or len(xijr) != len(hs):
            return _fail(w, 'solve_rabin_game.iterates: one cycle set and one family of attractor layers per persistence predicate', f't={t}')
        acc = set(zprev)
        cz = gm.cpre(zprev)
        for k, h in enumerate(hs):
            g0 = cz | h

            def FY(Ys, g0=g0):
                ins = gm.cpre(Ys) & g0
                a = set(gm.states)
                for g in gl:
                    a &= gm.lfp(lambda Xs, g=g: (gm.cpre(Xs) | g) & ins)
                return a
            want = gm.gfp(FY)
            Y = tt(yi[k])
            if Y != want:
                return _fail(w, 'solve_rabin_game.iterates: y[t][k] == CYC_k(z[t-1])', f't={t} k={k}')
            xjr = xijr[k]
            if len(xjr) != len(gl):
                return _fail(w, 'solve_rabin_game.iterates: attractor layers for exactly the recurrence predicates (of the final inner iteration)',
                             f't={t} k={k}: {len(xjr)} lists for {len(gl)} goals')
            ins = gm.cpre(Y) & g0
            inter = set(gm.states)
            for j, g in enumerate(gl):
                err = attractor_layers(gm, ins, g, xjr[j], tt)
                if err:
                    return _fail(w, 'solve_rabin_game.iterates: x[t][k][j] are the attractor layers of goal j inside CPre y[t][k] /\\ (CPre z[t-1] \\/ h_k)',
                                 f't={t} k={k} j={j}: {err}')
                inter &= tt(xjr[j][-1])
            if inter != Y:
                return _fail(w, 'solve_rabin_game.iterates: y[t][k] == /\\_j last layer of x[t][k][j]', f't={t} k={k}')
            acc |= Y
        if tt(z) != acc:
            return _fail(w, 'solve_rabin_game.iterates: z[t] == z[t-1] \\/ \\/_k y[t][k]', f't={t}')
        zprev = acc
    w.checked.append('solve_rabin_game.iterates explicit')
