"""Sidecar contracts for `omega.symbolic.fol.Context` operations (C07).

Proved per declaration shape for ALL predicates (uninterpreted): `let` (renaming
and substitution of every representable value), `replace_with_bdd`, `exist`,
`forall`, `apply`, `assign_from`, `support`.
Bounded (evaluated exhaustively on the real `dd` managers, both back ends):
`count`, `pick`, `pick_iter` and the digit/cube expansion helpers
`enumeration._bitfields_to_int_iter`, `_enumerate_int`, `_take_product_iter`.
"""
import itertools
import omega.logic.bitvector as _bv
import random

import z3

import omega.symbolic.fol as fol

from ovc import spec, denote
from ovc.engine import SymBool

CONTEXTS = {
    'mixed': dict(x=(0, 2), y=(-2, 1), b='bool', c='bool'),
    'allneg+wide': dict(x=(-4, -1), y=(0, 5), b='bool'),
    'twins': dict(x=(-1, 1), x2=(-1, 1), b='bool', b2='bool'),
    # hints with a single value still range over their bits (0..1, -4..-1)
    'singletons': dict(k=(0, 0), m=(-3, -3), x=(-2, 1), b='bool'),
    # a Boolean whose name looks like a bit of the integer next to it (legal: x has bits x_0, x_1 only)
    'lookalike': dict(x=(0, 3), x_7='bool', x_2='bool', b='bool'),
}
# same number of bits, different type hints (opposite implicit sign bits); used by the rename family only
SAME_WIDTH = dict(p=(0, 3), q=(-3, -1), r=(0, 3), b='bool')


def _enc(t, name, v):
    d = t[name]
    return {bn: bool((v >> i) & 1) for i, bn in enumerate(d['bitnames'])}


def h_quantify(ctx):
    w = ctx.w
    c = w.aut
    names = list(w.shape.sys)
    allbits = w.groups(('sys',))
    u = w.pred('U', allbits)
    tu = w.term(u)
    ex = ctx.fn(fol.Context.exist)
    fa = ctx.fn(fol.Context.forall)
    # the last form lists an identifier twice (concatenated overlapping variable lists)
    forms = (set, list, tuple, frozenset, lambda q: list(q) + list(q)[:1])
    n = 0
    for k in range(0, len(names) + 1):
        for qv in itertools.combinations(names, k):
            bits = w.zs(w.bits_of(qv))
            # the quantified identifiers as a set (documented), and as the lists /
            # tuples that the game solvers pass; the caller's collection is only read
            n += 1
            arg = forms[n % len(forms)](qv)
            r = ctx.call(ex, c, arg, u, label='exist')
            w.oblige(f'exist({sorted(qv)}).post: exactly the predicate holding where SOME representable values of the quantified variables satisfy u',
                     spec.equiv(w, w.term(r), spec.exists(bits, tu)))
            w.oblige('exist.frame: the caller\'s collection of identifiers is left as it was',
                     z3.BoolVal(sorted(set(arg)) == sorted(qv) and len(arg) in (len(qv), len(qv) + 1)))
            arg = forms[(n + 1) % len(forms)](qv)
            r = ctx.call(fa, c, arg, u, label='forall')
            w.oblige(f'forall({sorted(qv)}).post: exactly where ALL representable values satisfy u',
                     spec.equiv(w, w.term(r), spec.forall(bits, tu)))
            w.oblige('forall.frame: the caller\'s collection of identifiers is left as it was',
                     z3.BoolVal(sorted(set(arg)) == sorted(qv) and len(arg) in (len(qv), len(qv) + 1)))
    w.canary('quantify canary: exist == forall',
             spec.equiv(w, w.term(ctx.call(ex, c, {names[0]}, u)),
                        w.term(ctx.call(fa, c, {names[0]}, u))))


def h_let_values(ctx):
    w = ctx.w
    c = w.aut
    t = c.vars
    names = list(w.shape.sys)
    allbits = w.groups(('sys',))
    u = w.pred('U', allbits)
    tu = w.term(u)
    let = ctx.fn(fol.Context.let)
    den = denote.Den(t, w.z)
    n = 0
    for name in names:
        if t[name]['type'] == 'bool':
            vals = [False, True]
        else:
            L, H = den.limits(name)
            vals = list(range(L, H + 1))
        for v in vals:
            n += 1
            defs = {name: v}
            r = ctx.call(let, c, defs, u, label='let')
            w.oblige('let.frame: the caller\'s dict of definitions is left as it was',
                     z3.BoolVal(defs == {name: v} and type(defs[name]) is type(v)))
            if t[name]['type'] == 'bool':
                sub = [(w.z(name), z3.BoolVal(v))]
            else:
                sub = [(w.z(b), z3.BoolVal(x)) for b, x in _enc(t, name, v).items()]
            w.oblige(f'let({name} := value).post: the set of assignments of the remaining variables that, extended by the value, satisfy u (every representable value)',
                     spec.equiv(w, w.term(r), spec.subst(tu, sub)))
            w.oblige('let.post: result does not depend on the substituted variable',
                     z3.BoolVal(name not in c.support(r)))
    # simultaneous substitution of two variables
    if len(names) >= 2:
        a, b = names[0], names[1]
        va = False if t[a]['type'] == 'bool' else den.limits(a)[0]
        vb = True if t[b]['type'] == 'bool' else den.limits(b)[1]
        r = ctx.call(let, c, {a: va, b: vb}, u, label='let')
        sub = list()
        for nm, v in ((a, va), (b, vb)):
            if t[nm]['type'] == 'bool':
                sub.append((w.z(nm), z3.BoolVal(v)))
            else:
                sub += [(w.z(q), z3.BoolVal(x)) for q, x in _enc(t, nm, v).items()]
        w.oblige('let(two variables).post: simultaneous substitution',
                 spec.equiv(w, w.term(r), spec.subst(tu, sub)))
    r0 = ctx.call(let, c, dict(), u, label='let')
    w.oblige('let({}) == u', spec.equiv(w, w.term(r0), tu))
    w.canary('let canary: let == u', spec.equiv(w, w.term(r), tu))


def h_assign_apply(ctx):
    w = ctx.w
    c = w.aut
    t = c.vars
    names = list(w.shape.sys)
    den = denote.Den(t, w.z)
    af = ctx.fn(fol.Context.assign_from)
    doms = list()
    for nm in names:
        if t[nm]['type'] == 'bool':
            doms.append([False, True])
        else:
            L, H = den.limits(nm)
            doms.append(sorted({L, H, (L + H) // 2}))
    for vals in itertools.product(*doms):
        asg = dict(zip(names, vals))
        r = ctx.call(af, c, asg, label='assign_from')
        w.oblige('assign_from.frame: the caller\'s assignment is left as it was',
                 z3.BoolVal(asg == dict(zip(names, vals))))
        lits = list()
        for nm, v in asg.items():
            if t[nm]['type'] == 'bool':
                lits.append(w.z(nm) == z3.BoolVal(v))
            else:
                lits += [w.z(q) == z3.BoolVal(x) for q, x in _enc(t, nm, v).items()]
        w.oblige('assign_from.post: the singleton of the assignment',
                 w.valid_goal(w.term(r) == z3.And(*lits)))
    part = {names[0]: doms[0][0]}
    r = ctx.call(af, c, part, label='assign_from')
    w.oblige('assign_from(partial).post: depends only on the assigned variables',
             z3.BoolVal(c.support(r) <= set(part)))
    allbits = w.groups(('sys',))
    u, v = w.pred('U', allbits), w.pred('V', allbits)
    ap = ctx.fn(fol.Context.apply)
    tu, tv = w.term(u), w.term(v)
    for op, sem in (('and', z3.And(tu, tv)), ('or', z3.Or(tu, tv)),
                    ('xor', z3.Xor(tu, tv)), ('=>', z3.Implies(tu, tv)),
                    ('<=>', tu == tv), ('diff', z3.And(tu, z3.Not(tv)))):
        r = ctx.call(ap, c, op, u, v, label='apply')
        w.oblige(f'apply({op}).post: the set operation', spec.equiv(w, w.term(r), sem))
    r = ctx.call(ap, c, 'not', u, label='apply')
    w.oblige('apply(not).post: complement', spec.equiv(w, w.term(r), z3.Not(tu)))
    w.canary('apply canary', spec.equiv(w, w.term(r), tu))


def h_rename_replace(ctx):
    w = ctx.w
    c = w.aut
    allbits = w.groups(('sys',))
    let = ctx.fn(fol.Context.let)
    for old, new in ctx.p['pairs']:
        ob, nb = w.bits_of([old]), w.bits_of([new])
        u = w.pred(f'U_{old}', [b for b in allbits if b not in nb])
        r = ctx.call(let, c, {old: new}, u, label='let')
        # the target variable may occur in the predicate as well
        u2 = w.pred(f'U2_{old}', allbits)
        r2 = ctx.call(let, c, {old: new}, u2, label='let')
        w.oblige(f'let({old} -> {new}).post: substitution also when the new variable already occurs in the predicate',
                 spec.equiv(w, w.term(r2), spec.subst(w.term(u2), list(zip(w.zs(ob), w.zs(nb))))))
        w.oblige(f'let({old} -> {new}).post: same-typed variable substituted, bit by bit',
                 spec.equiv(w, w.term(r), spec.subst(w.term(u), list(zip(w.zs(ob), w.zs(nb))))))
        w.oblige('let(rename).post: support loses the old identifier',
                 z3.BoolVal(old not in c.support(r)))
    # several identifiers at once: the substitution is SIMULTANEOUS (a target may
    # also be a source: swaps, rotations)
    for multi in ctx.p.get('multi', []):
        um = w.pred('Um_' + '_'.join(multi), allbits)
        sub = list()
        for old, new in multi.items():
            sub += list(zip(w.zs(w.bits_of([old])), w.zs(w.bits_of([new]))))
        rm = ctx.call(let, c, dict(multi), um, label='let')
        w.oblige(f'let({multi}).post: simultaneous substitution of same-typed variables (targets that are also sources)',
                 spec.equiv(w, w.term(rm), spec.subst(w.term(um), sub)))
    rb = ctx.fn(fol.Context.replace_with_bdd)
    bname = ctx.p['bool']
    u = w.pred('Ub', allbits)
    g = w.pred('G', [b for b in allbits if b != bname])
    r = ctx.call(rb, c, u, {bname: g}, label='replace_with_bdd')
    w.oblige('replace_with_bdd.post: Boolean variable replaced by the predicate',
             spec.equiv(w, w.term(r), spec.subst(w.term(u), [(w.z(bname), w.term(g))])))
    # renaming between integers with different type hints: refused, or exact w.r.t.
    # the VALUES (never a silent reinterpretation of the bits)
    for a, b in ctx.p.get('hint_mismatch', []):
        um = w.pred(f'Uh_{a}', [x for x in allbits if x not in w.bits_of([b])])
        try:
            rr = let(c, {a: b}, um)
        except AssertionError:
            continue
        den_ = denote.Den(c.vars, w.z)
        va, vb = den_.var_int(a), den_.var_int(b)
        # value-exact: r(s) holds iff u holds at s with a := value of b; expressed
        # bit-wise this requires the two encodings to agree, which they do not here
        la, lb = den_.limits(a), den_.limits(b)
        w.oblige(f'let({a} -> {b}) between integers with different type hints is refused (the encodings {la} and {lb} differ)',
                 z3.BoolVal(la == lb))
    # type mismatch must be refused
    if w.symbolic and ctx.p.get('mismatch'):
        a, b = ctx.p['mismatch']
        try:
            let(c, {a: b}, u)
            ok = False
        except AssertionError:
            ok = True
        w.oblige('let(rename between different types).raises', z3.BoolVal(ok))
    w.canary('rename canary', spec.equiv(w, w.term(r), w.term(u)))


def h_support(ctx):
    w = ctx.w
    c = w.aut
    names = list(w.shape.sys)
    sup = ctx.fn(fol.Context.support)
    n = 0
    for k in range(len(names) + 1):
        for sub in itertools.combinations(names, k):
            for which in (0, -1):
                n += 1
                bits = [w.bits_of([v])[which] for v in sub]
                u = w.pred(f'S{n}', bits) if bits else w.const_pred(False)
                r = ctx.call(sup, c, u, label='support')
                w.oblige(f'support.post: exactly the variables the predicate depends on ({sorted(sub)})',
                         z3.BoolVal(r == set(sub)))
    # an identifier declared after `support` has been used
    how = ctx.p.get('late', 'declare')
    late = dict(late_k=(0, 5), late_b='bool')
    if hasattr(c, 'declare_variables') and how == 'declare':
        c.declare_variables(**late)
    elif hasattr(c, 'declare_constants') and how == 'constants':
        c.declare_constants(**late)
    elif hasattr(c, 'declare') and how == 'declare':
        c.declare(**late)
    else:
        c.add_vars(_bv.make_symbol_table(late))
    for sub in (['late_k'], ['late_b'], ['late_k', 'late_b'] + names[:1]):
        for which in (0, -1):
            n += 1
            bits = [w.bits_of([v])[which] for v in sub]
            u = w.pred(f'S{n}', bits)
            r = ctx.call(sup, c, u, label='support')
            w.oblige(f'support.post: exactly the variables the predicate depends on ({sorted(sub)}), declared after earlier calls of support ({how})',
                     z3.BoolVal(r == set(sub)))
    w.canary('support canary', z3.BoolVal(n == 0))


# ---------------------------------------------------------------------------
# bounded: enumeration on the real managers

def enumeration_check(cname, backend, seed, n_random):
    decl = CONTEXTS[cname]

    def run():
        import dd.autoref as autoref
        rnd = random.Random(seed)
        c = fol.Context()
        if backend == 'autoref':
            c.bdd = autoref.BDD()
        c.declare(**decl)
        t = c.vars
        names = list(decl)
        den = denote.Den(t, lambda b: None)
        doms = dict()
        for nm in names:
            doms[nm] = [False, True] if decl[nm] == 'bool' else list(
                range(den.limits(nm)[0], den.limits(nm)[1] + 1))

        def cube(asg):
            d = dict()
            for nm, v in asg.items():
                if decl[nm] == 'bool':
                    d[nm] = v
                else:
                    d.update(_enc(t, nm, v))
            return c.bdd.cube(d)
        fails = list()
        n = 0
        subsets = [s for k in range(len(names) + 1)
                   for s in itertools.combinations(names, k)]
        for trial in range(n_random):
            supp = rnd.choice(subsets)
            space = list(itertools.product(*[doms[nm] for nm in supp]))
            p = rnd.choice([0.15, 0.5, 0.85])
            models = [dict(zip(supp, vals)) for vals in space if rnd.random() < p]
            u = c.false
            for m in models:
                u |= cube(m)
            real_supp = c.support(u)
            for care in (None, tuple(real_supp), rnd.choice(subsets), tuple(names)):
                n += 1
                care_raw = care
                if care is not None and not set(care) >= real_supp:
                    care = tuple(set(care) | real_supp)
                over = sorted(real_supp if care is None else set(care) | real_supp)
                want = list()
                for vals in itertools.product(*[doms[nm] for nm in over]):
                    asg = dict(zip(over, vals))
                    if c.let(asg, u) == c.true:
                        want.append(asg)
                # independent membership: via the cubes we built
                want2 = [a for a in (dict(zip(over, vals)) for vals in itertools.product(*[doms[nm] for nm in over]))
                         if any(all(a.get(k) == v for k, v in m.items()) for m in models)] \
                    if set(supp) <= set(over) else None
                care_arg = None if care is None else list(care)
                if care_arg and trial % 3 == 0:
                    # an identifier listed twice (e.g. concatenated overlapping variable lists)
                    # is still one identifier
                    care_arg = care_arg + care_arg[:1]
                elif care_arg and trial % 3 == 1:
                    care_arg = set(care_arg)
                try:
                    got = list(c.pick_iter(u, care_vars=care_arg))
                    one = c.pick(u, care_vars=care_arg)
                    if care_raw and trial % 3 == 1:
                        # a caller that keeps ONE set of care variables (not necessarily containing the
                        # support) and uses it again afterwards: the number of assignments of TRUE over
                        # that set is the size of the product of those variables' ranges
                        mine = set(care_raw)
                        list(c.pick_iter(u, care_vars=mine))
                        c.pick(u, care_vars=mine)
                        size = 1
                        for nm in set(care_raw):
                            size *= len(doms[nm])
                        again = c.count(c.true, care_vars=mine)
                        if again != size and len(fails) < 4:
                            fails.append(dict(name='count(TRUE) over the caller\'s set of care variables, used before in pick_iter / pick of another predicate, is the size of the product of their ranges',
                                              care_vars_given=str(sorted(care_raw)), care_vars_afterwards=str(sorted(mine)), count=int(again), expected=size))
                    cnt = c.count(u, care_vars=care_arg)
                except Exception as e:
                    fails.append(dict(name='pick_iter / count / pick run without error', error=repr(e), care=str(care)))
                    continue
                key = lambda a: sorted(a.items(), key=str)
                ok = (sorted(map(key, got)) == sorted(map(key, want))
                      and cnt == len(want)
                      and ((one is None) == (not want))
                      and (one is None or one in want))
                if want2 is not None:
                    ok = ok and sorted(map(key, want2)) == sorted(map(key, want))
                if not ok and len(fails) < 4:
                    fails.append(dict(
                        name='pick_iter yields every satisfying assignment over support + care_vars exactly once; count equals their number; pick returns one of them',
                        care=str(care_arg), yielded=len(got), expected=len(want), count=cnt,
                        duplicates=len(got) - len({str(key(a)) for a in got})))
        return dict(records=[], stats=dict(), functions={
            f'omega.symbolic.fol.Context.{k}': dict(source_lines=0, cut={}, stubs=[], dropped='run natively on real dd: bounded')
            for k in ('pick_iter', 'pick', 'count')} | {
            f'omega.symbolic.enumeration.{k}': dict(source_lines=0, cut={}, stubs=[], dropped='run natively: bounded')
            for k in ('_bitfields_to_int_iter', '_enumerate_int', '_take_product_iter')},
            bounded=dict(evaluations=n, context=cname, backend=backend, failures=fails))
    return run


def partial_cube_check(width_max):
    """`_enumerate_int` / `_bitfields_to_int_iter`: every partial cube over a
    word of <= width_max bits, each sign convention: yields every completion
    exactly once."""
    def run():
        import omega.symbolic.enumeration as en
        import omega.logic.bitvector as bv
        fails = list()
        n = 0
        for dom in ((0, 1), (0, 5), (-2, 1), (-4, 3), (-4, -1), (-8, -3), (0, 12))[:7]:
            t = bv.bitblast_table(dict(x=dict(type='int', dom=dom), b=dict(type='bool')))
            d = t['x']
            if d['width'] > width_max:
                continue
            L, H = denote.Den(t, lambda b: None).limits('x')
            for partial in itertools.product([None, False, True], repeat=d['width']):
                for bval in (None, True):
                    n += 1
                    bits = {bn: v for bn, v in zip(d['bitnames'], partial) if v is not None}
                    if bval is not None:
                        bits['b'] = bval
                    got = list(en._bitfields_to_int_iter(bits, t))
                    want = list()
                    if any(v is not None for v in partial):
                        for v in range(L, H + 1):
                            enc = _enc(t, 'x', v)
                            if all(enc[bn] == bits[bn] for bn in d['bitnames'] if bn in bits):
                                m = dict(x=v)
                                if bval is not None:
                                    m['b'] = bval
                                want.append(m)
                    else:
                        want = [dict(b=bval)] if bval is not None else [dict()]
                    key = lambda a: sorted(a.items())
                    if sorted(map(key, got)) != sorted(map(key, want)) and len(fails) < 4:
                        fails.append(dict(name='_bitfields_to_int_iter yields every completion of the partial cube exactly once',
                                          dom=dom, bits=str(bits), got=str(got)[:200], want=str(want)[:200]))
        return dict(records=[], stats=dict(), functions={}, bounded=dict(
            evaluations=n, exhaustive=True, failures=fails, window=f'words up to {width_max} bits, all partial cubes'))
    return run


def h_support_lookalike_int(ctx):
    """An integer whose NAME equals a bit name of another integer (declared in a
    separate call: legal, no bit is shared): support, quantification and
    substitution keep the two apart."""
    w = ctx.w
    c = w.aut
    first = list(w.shape.sys)[0]                  # e.g. `a`, already declared
    bit0 = c.vars[first]['bitnames'][0]           # e.g. `a_0`
    c.declare(**{bit0: ctx.p['hint']})            # integer named like that bit
    a_bits = list(c.vars[first]['bitnames'])
    o_bits = list(c.vars[bit0]['bitnames'])
    sup = ctx.fn(fol.Context.support)
    ex = ctx.fn(fol.Context.exist)
    for tag, bits, want in (('first', a_bits, {first}), ('second', o_bits, {bit0}), ('both', a_bits + o_bits, {first, bit0})):
        u = w.pred(f'Ul_{tag}', bits)
        got = set(ctx.call(sup, c, u, label='support'))
        w.oblige(f'support of a predicate over the bits of {sorted(want)} reports identifiers among {sorted(want)} only (an integer named like a bit of another integer)',
                 z3.BoolVal(got <= want))
        r = ctx.call(ex, c, {first}, u, label='exist')
        w.oblige(f'exist({first}) quantifies the bits of {first} only ({tag})',
                 spec.equiv(w, w.term(r), spec.exists(w.zs(a_bits), w.term(u))))
    w.canary('lookalike canary', z3.BoolVal(False))


def wide_enumeration(backend):
    """BOUNDED: enumeration, counting, picking, substitution of values and
    support on variables of 11 and 12 bits (bit names x_10, x_11 sort before
    x_2 as strings)."""
    def run():
        import dd.autoref as autoref
        fails = list()
        n = 0
        c = fol.Context()
        if backend == 'autoref':
            c.bdd = autoref.BDD()
        c.declare(x=(0, 2047), y=(-1200, 1500), b='bool')
        cases = [
            ('x >= 1024', ['x'], lambda a: a['x'] >= 1024),
            (r'(x = 1030) \/ (x = 5) \/ (x = 4)', ['x'], lambda a: a['x'] in (1030, 5, 4)),
            (r'(x \in 1000..1100) /\ b', ['x', 'b'], lambda a: 1000 <= a['x'] <= 1100 and a['b']),
            ('y < -1024', ['y'], lambda a: a['y'] < -1024),
            (r'(y = -1025) \/ (y = 1027) \/ (y = 4)', ['y'], lambda a: a['y'] in (-1025, 1027, 4)),
            (r'(x = 1024) /\ (y = -2048 \/ y = 2047 \/ y = -1)', ['x', 'y'], lambda a: a['x'] == 1024 and a['y'] in (-2048, 2047, -1)),
        ]
        doms = dict(x=range(0, 2048), y=range(-2048, 2048), b=[False, True])
        for fml, over, sem in cases:
            n += 1
            u = c.add_expr(fml)
            if set(c.support(u)) != set(over):
                fails.append(dict(name='support of a predicate over wide variables', formula=fml, got=sorted(c.support(u)), backend=backend))
            want = [dict(zip(over, vals)) for vals in itertools.product(*[doms[k] for k in over]) if sem(dict(zip(over, vals)))] \
                if len(over) == 1 or 'b' in over else \
                [dict(x=1024, y=v) for v in (-2048, 2047, -1)]
            key = lambda a: sorted(a.items())
            try:
                got = list(c.pick_iter(u, care_vars=over))
                cnt = c.count(u, care_vars=over)
            except Exception as e:
                fails.append(dict(name='pick_iter / count run on wide variables', formula=fml, error=repr(e)[:160], backend=backend))
                continue
            if sorted(map(key, got)) != sorted(map(key, want)) or cnt != len(want):
                if len(fails) < 6:
                    fails.append(dict(name='pick_iter yields exactly the satisfying assignments and count their number (variables of 11 and 12 bits)',
                                      formula=fml, expected=len(want), yielded=len(got), count=int(cnt),
                                      first_wrong=str(sorted(set(map(str, got)) ^ set(map(str, want)))[:3]), backend=backend))
            # substitution of values: let(values) agrees with the semantics at sampled points
            for a in want[:3] + [dict(zip(over, [doms[k][0] for k in over])), dict(zip(over, [doms[k][-1] for k in over]))]:
                n += 1
                r = c.let(a, u)
                if (r == c.true) != bool(sem(a)) and len(fails) < 6:
                    fails.append(dict(name='let(values) on wide variables', formula=fml, values=str(a), backend=backend))
        # renaming between two wide variables of the same type hint, and priming of a wide
        # variable in an automaton: bit i goes to bit i
        import omega.symbolic.temporal as trl_
        c2 = fol.Context()
        a2 = trl_.Automaton()
        if backend == 'autoref':
            c2.bdd = autoref.BDD()
            a2.bdd = autoref.BDD()
        c2.declare(x=(0, 2047), w=(0, 2047))
        a2.declare_variables(x=(0, 2047))
        for vals in ([4, 6, 1024, 2047], [1030], [2, 10, 11, 512, 1536]):
            n += 1
            fml = ' \\/ '.join(f'(x = {v})' for v in vals)
            try:
                r = c2.let(dict(x='w'), c2.add_expr(fml))
                got = sorted(d['w'] for d in c2.pick_iter(r, care_vars=['w']))
                rp = a2.replace_with_primed(['x'], a2.add_expr(fml))
                gotp = sorted(d["x'"] for d in a2.pick_iter(rp, care_vars=["x'"]))
                back = a2.replace_with_unprimed(['x'], rp) == a2.add_expr(fml)
            except Exception as e:
                fails.append(dict(name='renaming of wide variables runs', formula=fml, error=repr(e)[:160], backend=backend))
                continue
            if (got != sorted(vals) or gotp != sorted(vals) or not back) and len(fails) < 6:
                fails.append(dict(name='let(x := w) / replace_with_primed on variables of 11 bits: the same values of the other variable',
                                  formula=fml, renamed=str(got), primed=str(gotp), unprime_gives_back=back, backend=backend))
        return dict(records=[], stats=dict(), functions={}, bounded=dict(evaluations=n, backend=backend, failures=fails[:6]))
    return run
