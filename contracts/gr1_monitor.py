"""Run-time contract monitor for synthesized implementations (C02, C05, and the
source of implementations for C12 / C19): BOUNDED, never counted as proved.

Concrete games are generated from a seed on the real `dd` manager, solved and
synthesized by the real code; the closed loop is then analysed explicitly
(Python sets of states, no BDD / omega code on the checking side):
conformance of every reachable step, memory ranges, non-blocking in the mode's
quantifier pattern, and liveness of every reachable cycle.
"""
import contextlib
import io
import itertools
import random

import omega.games.gr1 as gr1
import omega.symbolic.temporal as trl


def make_game(rnd, decl_env, decl_sys, moore, plus_one, qinit, n_holds, n_goals,
              backend='cudd', dense=None, base='plain'):
    """Random game over the declared variables, as formulas over atoms chosen
    at random (keeps actions structured enough to be often realizable)."""
    import dd.autoref as autoref
    if base == 'plain':
        aut = trl.Automaton()
    elif base == 'default-streett':
        aut = trl.default_streett_automaton()
    else:
        aut = trl.default_rabin_automaton()
    if backend == 'autoref':
        aut.bdd = autoref.BDD()
    if decl_env:
        aut.declare_variables(**decl_env)
    aut.declare_variables(**decl_sys)
    if base == 'plain':
        aut.varlist = dict(env=list(decl_env), sys=list(decl_sys))
    else:
        # the lists of the default automaton, populated in place
        for v in decl_env:
            aut.varlist['env'].append(v)
        for v in decl_sys:
            aut.varlist['sys'].append(v)
    aut.moore, aut.plus_one, aut.qinit = moore, plus_one, qinit
    aut.prime_varlists()

    def bits(names):
        out = list()
        for v in names:
            d = aut.vars[v]
            out += [v] if d['type'] == 'bool' else list(d['bitnames'])
        return out
    ub = bits(list(decl_env) + list(decl_sys))
    pb = [b + "'" for b in ub]

    def rand_pred(over, p):
        u = aut.false
        for vals in itertools.product([False, True], repeat=len(over)):
            if rnd.random() < p:
                u |= aut.bdd.cube(dict(zip(over, vals)))
        return u
    pe = dense if dense is not None else rnd.choice([0.6, 0.8, 0.95])
    ps = rnd.choice([0.4, 0.6, 0.8])
    env_over = ub + bits([v + "'" for v in decl_env])
    if rnd.random() < 0.3:
        env_over = ub + pb                      # env reads sys' too
    sys_over = ub + pb if (not moore or rnd.random() < 0.2) else ub + bits([v + "'" for v in decl_sys])
    if base == 'plain':
        aut.action['env'] = rand_pred(env_over, pe)
        aut.action['sys'] = rand_pred(sys_over, ps)
    else:
        # both ways of dict.update at once: a mapping and a keyword
        e_, s_ = rand_pred(env_over, pe), rand_pred(sys_over, ps)
        aut.action.update({'env': e_}, sys=s_)
        try:
            stored = (aut.action['env'] == e_) and (aut.action['sys'] == s_)
        except Exception:
            stored = False
        if not stored:
            # reported by the families that use this game; the game is then stored entry by entry
            aut.ovc_setup_failure = 'action.update({"env": e}, sys=s) does not store both actions as given'
            aut.action['env'], aut.action['sys'] = e_, s_
    aut.win['<>[]'] = [rand_pred(ub, rnd.choice([0.1, 0.3, 0.6])) for _ in range(n_holds)]
    aut.win['[]<>'] = [rand_pred(ub, rnd.choice([0.3, 0.6, 0.9])) for _ in range(n_goals)]
    if qinit == r'\A \A':
        aut.init['sys'] = aut.true
        aut.init['env'] = rand_pred(bits(decl_env), 0.6)
    elif qinit == r'\E \E':
        aut.init['env'] = aut.true
        aut.init['sys'] = rand_pred(ub, 0.7)
    else:
        aut.init['env'] = rand_pred(bits(decl_env), 0.7)
        aut.init['sys'] = rand_pred(ub, 0.8)
    return aut


def _tt(aut, u, bits):
    out = set()
    if not bits:
        return {()} if u == aut.true else set()
    for d in aut.bdd.pick_iter(u, care_vars=bits):
        out.add(tuple(bool(d[b]) for b in bits))
    return out


def _int_of(bits_vals):
    return sum(1 << i for i, b in enumerate(bits_vals) if b)


def analyse(aut, kind, mem_vars, iterates=None, win=None):
    """Explicit closed-loop analysis.  Returns list of failure dicts."""
    def bits(names):
        out = list()
        for v in names:
            d = aut.vars[v]
            out += [v] if d['type'] == 'bool' else list(d['bitnames'])
        return out
    envv, sysv = list(aut.varlist['env']), [v for v in aut.varlist['sys']]
    xb, yb, mb = bits(envv), bits(sysv), bits(mem_vars)
    # a memory bit that IS a bit of a specification variable (same name, hence
    # the same BDD variable) is one coordinate of the state, not two
    mb = [b for b in mb if b not in xb + yb]
    xpb, ypb, mpb = [b + "'" for b in xb], [b + "'" for b in yb], [b + "'" for b in mb]
    state_bits = xb + yb + mb
    act_bits = state_bits + xpb + ypb + mpb
    nx, ny, nm = len(xb), len(yb), len(mb)
    impl = _tt(aut, aut.action['impl'], act_bits)
    # E, S do not read memory: lift
    base = xb + yb + xpb + ypb
    E = _tt(aut, aut.action['env'], base)
    S = _tt(aut, aut.action['sys'], base)
    init = _tt(aut, aut.init['impl'] & aut.init['env'], state_bits)
    # the liveness predicates as the caller set them before solving, if given
    win_h, win_g = win if win is not None else (aut.win['<>[]'], aut.win['[]<>'])
    holds = [_tt(aut, h, xb + yb) for h in win_h]
    goals = [_tt(aut, g, xb + yb) for g in win_g]
    X = list(itertools.product([False, True], repeat=nx))
    Y = list(itertools.product([False, True], repeat=ny))
    M = list(itertools.product([False, True], repeat=nm))
    ns = nx + ny + nm
    succ = dict()
    for a in impl:
        s, t = a[:ns], a[ns:]
        succ.setdefault(s, []).append(t)
    fails = list()
    ranges = list()
    idx = {b: i for i, b in enumerate(state_bits)}
    for v in mem_vars:
        lo, hi = aut.vars[v]['dom']
        ranges.append(([idx[b] for b in bits([v])], lo, hi, v))

    def mem_val(st, pos):
        return _int_of(tuple(st[i] for i in pos))

    def mem_ok(st):
        return all(lo <= mem_val(st, pos) <= hi for pos, lo, hi, _ in ranges)

    def base_of(s, t):
        return s[:nx + ny] + t[:nx + ny]
    reach = set(init)
    todo = list(init)
    edges = dict()
    while todo:
        s = todo.pop()
        outs = list()
        for t in succ.get(s, []):
            b = base_of(s, t)
            if b not in E:
                continue
            # a step taken while the environment keeps its action
            if b not in S:
                fails.append(dict(name='closed loop: a reachable allowed step violates the specified component action',
                                  state=str(s), next=str(t)))
            if not mem_ok(t):
                fails.append(dict(name='closed loop: memory variable leaves its declared range',
                                  state=str(s), next=str(t)))
            outs.append(t)
            if t not in reach:
                reach.add(t)
                todo.append(t)
        edges[s] = outs
        # non-blocking in the mode's quantifier pattern
        ts = succ.get(s, [])
        byx = dict()
        for t in ts:
            byx.setdefault(t[:nx], set()).add(t[nx:])
        if aut.moore:
            common = None
            for xv in X:
                c = byx.get(xv, set())
                common = c if common is None else common & c
            ok = bool(common) if X else bool(ts)
        else:
            ok = all(byx.get(xv) for xv in X) if X else bool(ts)
        if not ok:
            # classification for the known finding F3: is the environment
            # already forced to break its action at this state (s in CPre(empty))?
            xs, ys = s[:nx], s[nx:nx + ny]

            def breaks(xv, yv):
                b = xs + ys + xv + yv
                return (b in S) and (b not in E)
            if aut.moore:
                forced = any(all(breaks(xv, yv) for xv in X) for yv in Y)
            else:
                forced = all(any(breaks(xv, yv) for yv in Y) for xv in X)
            stale = None
            if kind == 'rabin' and iterates is not None:
                # classification for the second known finding: the state carries
                # a persistence index k (chosen in a higher layer) but lies in a
                # lower layer t whose cycle set Y[t][k] does not contain it
                zk_, yki_ = iterates
                for (pos, lo, hi, vv) in ranges:
                    if vv == '_hold':
                        wv = mem_val(s, pos)
                none = len(aut.win['<>[]'])
                ps = s[:nx + ny]
                layer = next((t for t, zt in enumerate(zk_) if ps in zt), None)
                stale = bool(wv != none and layer is not None
                             and ps not in yki_[layer][wv]) if wv <= none else None
            fails.append(dict(
                env_forced_to_break_its_action=forced, plus_one=bool(aut.plus_one),
                f3_pattern=bool(aut.plus_one and forced),
                stale_hold_pattern=stale,
                name='closed loop: reachable state where the synthesized action allows no step '
                     + ('with a choice independent of the next environment values (Moore)' if aut.moore
                        else 'for some next environment value (Mealy)'),
                state=dict(zip(state_bits, s))))
        if len(fails) > 6:
            return fails, len(reach)
    for s in init:
        if not mem_ok(s):
            fails.append(dict(name='closed loop: initial memory outside its range', state=str(s)))
    # liveness of reachable cycles
    import networkx as nx_
    g = nx_.DiGraph()
    for s, outs in edges.items():
        for t in outs:
            g.add_edge(s, t)

    def nontrivial_sccs(h):
        for comp in nx_.strongly_connected_components(h):
            if len(comp) > 1 or any(h.has_edge(u, u) for u in comp):
                yield comp

    def proj(s):
        return s[:nx + ny]
    if kind == 'streett':
        # violated iff a cycle avoids some goal forever and leaves every hold infinitely often
        for j, gl in enumerate(goals):
            h = g.subgraph([s for s in g if proj(s) not in gl])
            for comp in nontrivial_sccs(h):
                if all(any(proj(s) not in hk for s in comp) for hk in holds):
                    fails.append(dict(name='closed loop: a reachable cycle violates the liveness condition (avoids a recurrence predicate and leaves every persistence predicate)',
                                      goal=j, cycle_states=len(comp)))
                    break
    else:
        # Rabin: some hold from some point on AND every goal infinitely often
        for comp in nontrivial_sccs(g):
            if all(any(proj(s) not in hk for s in comp) for hk in holds):
                # the whole SCC may still contain good sub-cycles; a violating
                # cycle exists (visit all the ~h_k states)
                fails.append(dict(name='closed loop: a reachable cycle leaves every persistence predicate infinitely often',
                                  cycle_states=len(comp)))
                break
        for j, gl in enumerate(goals):
            h = g.subgraph([s for s in g if proj(s) not in gl])
            for comp in nontrivial_sccs(h):
                fails.append(dict(name='closed loop: a reachable cycle avoids a recurrence predicate forever',
                                  goal=j, cycle_states=len(comp)))
                break
    return fails, len(reach)


class _W:
    def __init__(self):
        self.failed, self.checked = list(), list()

    def fail(self, name, witness):
        self.failed.append(dict(name=name, witness=witness))


def _check_iterates(aut, kind, its):
    from ovc import explicit
    from contracts import iterates

    def bits(names):
        out = list()
        for v in names:
            d = aut.vars[v]
            out += [v] if d['type'] == 'bool' else list(d['bitnames'])
        return out
    xb, yb = bits(aut.varlist['env']), bits(aut.varlist['sys'])
    # the memory variables are declared after solving: exclude them
    yb = [b for b in yb if not b.startswith('_goal') and not b.startswith('_hold')]
    base = xb + yb + [b + "'" for b in xb] + [b + "'" for b in yb]
    gm_ = explicit.Game(len(xb), len(yb), 0, _tt(aut, aut.action['env'], base),
                        _tt(aut, aut.action['sys'], base), aut.moore, aut.plus_one)
    st = xb + yb
    w = _W()
    hs = [_tt(aut, h, st) for h in aut.win['<>[]']]
    gl = [_tt(aut, g, st) for g in aut.win['[]<>']]
    tt = lambda u: _tt(aut, u, st)
    if kind == 'streett':
        iterates.streett(w, gm_, hs, gl, its[0], its[1], its[2], tt)
    else:
        iterates.rabin(w, gm_, hs, gl, its[0], its[1], its[2], tt)
    return w.failed


def monitor(kind, seed, n_games, backend='cudd'):
    def run():
        rnd = random.Random(seed)
        fails = list()
        n = built = 0
        reach_total = 0
        samples = list()
        shapes_ = [(dict(x='bool'), dict(y='bool')),
                   (dict(x='bool'), dict(y=(0, 2))),
                   (dict(x=(0, 2)), dict(y='bool')),
                   (dict(), dict(y=(0, 3))),
                   (dict(x='bool'), dict(y='bool', v='bool'))]
        qinits = [r'\A \A', r'\E \E', r'\A \E', r'\E \A']
        while n < n_games:
            n += 1
            de, ds = rnd.choice(shapes_)
            moore, plus_one = rnd.choice([(True, True), (True, False), (False, True), (False, False)])
            qinit = rnd.choice(qinits)
            nh, ng = rnd.choice([(1, 1), (1, 2), (2, 1), (2, 2)])
            aut = make_game(rnd, de, ds, moore, plus_one, qinit, nh, ng, backend)
            desc = dict(env=de, sys=ds, moore=moore, plus_one=plus_one, qinit=qinit,
                        holds=nh, goals=ng, game_no=n, seed=seed)
            as_set = (list(aut.win['<>[]']), list(aut.win['[]<>']))
            try:
                with contextlib.redirect_stdout(io.StringIO()):
                    if kind == 'streett':
                        z, yij, xijk = gr1.solve_streett_game(aut)
                        if not gr1.is_realizable(z, aut) or z == aut.false:
                            continue
                        gr1.make_streett_transducer(z, yij, xijk, aut)
                        mem = ['_goal']
                    else:
                        zk, yki, xkijr = gr1.solve_rabin_game(aut)
                        if not gr1.is_realizable(zk[-1], aut) or zk[-1] == aut.false:
                            continue
                        gr1.make_rabin_transducer(zk, yki, xkijr, aut)
                        mem = ['_hold', '_goal']
            except AssertionError as e:
                fails.append(dict(name='construction succeeds whenever the verdict is true and the winning region is non-empty',
                                  error=repr(e)[:200], game=desc))
                continue
            built += 1
            # the iterate facts the transducer relies on, evaluated explicitly
            ff = _check_iterates(aut, kind, (z, yij, xijk) if kind == 'streett' else (zk, yki, xkijr))
            for x in ff[:2]:
                x['game'] = desc
                fails.append(x)
            its = None
            if kind == 'rabin':
                sb = list()
                for v in list(aut.varlist['env']) + list(aut.varlist['sys']):
                    d = aut.vars[v]
                    sb += [v] if d['type'] == 'bool' else list(d['bitnames'])
                its = ([_tt(aut, zt, sb) for zt in zk],
                       [[_tt(aut, y, sb) for y in yi] for yi in yki])
            f, nr = analyse(aut, kind, mem, its, win=as_set)
            reach_total += nr
            if len(samples) < 2:
                samples.append(dict(game=desc, reachable_states=nr))
            for x in f[:3]:
                x['game'] = desc
                fails.append(x)
        return dict(records=[], stats=dict(), functions={}, bounded=dict(
            evaluations=n, implementations_built=built, reachable_states=reach_total,
            samples=samples, failures=fails, kind=kind, backend=backend))
    return run


def rebuild_same_automaton(kind, seed, n_games, backend='cudd'):
    """BOUNDED: an implementation is constructed, then the liveness predicates
    of the SAME automaton are replaced by lists of other lengths (more or fewer
    recurrence goals / persistence sets), the game is solved and implemented
    again.  A second construction that is refused (ValueError/AssertionError,
    e.g. the memory is declared already with another range) is not a
    construction; one that returns is analysed like any other: the closed
    loop over the memory AS DECLARED NOW must satisfy the property."""
    def run():
        rnd = random.Random(seed)
        fails = list()
        n = built = refused = 0
        shapes_ = [(dict(x='bool'), dict(y='bool')),
                   (dict(x='bool'), dict(y=(0, 2))),
                   (dict(), dict(y=(0, 3))),
                   # legal names of specification variables that look like bits
                   # of the memory that the construction adds
                   (dict(x='bool'), dict(_goal_0='bool')),
                   (dict(x='bool'), dict(y='bool', _goal_0='bool')),
                   (dict(), dict(y=(0, 2), _goal_0='bool')),
                   (dict(_goal_1='bool'), dict(y='bool')),
                   (dict(), dict(_hold_0='bool', y='bool'))]
        qinits = [r'\A \A', r'\E \E', r'\A \E', r'\E \A']
        counts = [(1, 1), (1, 2), (2, 1), (2, 2), (1, 3), (3, 1), (1, 4), (1, 5), (4, 1)]
        while n < n_games:
            n += 1
            de, ds = rnd.choice(shapes_)
            moore, plus_one = rnd.choice([(True, True), (True, False), (False, True), (False, False)])
            qinit = rnd.choice(qinits)
            seq = [rnd.choice(counts[:4]), rnd.choice(counts), rnd.choice(counts)]
            aut = None
            for round_, (nh, ng) in enumerate(seq):
                fresh = make_game(rnd, de, ds, moore, plus_one, qinit, nh, ng, backend, dense=0.95,
                                  base=('plain' if n % 2 == 0 else 'default-' + kind))
                if aut is None:
                    aut = fresh
                else:
                    cp = lambda u: fresh.bdd.copy(u, aut.bdd)
                    aut.win['<>[]'] = [cp(u) for u in fresh.win['<>[]']]
                    aut.win['[]<>'] = [cp(u) for u in fresh.win['[]<>']]
                    if n % 3 == 0:
                        # the actions change as well between the two syntheses
                        aut.action['env'], aut.action['sys'] = cp(fresh.action['env']), cp(fresh.action['sys'])
                desc = dict(env=de, sys=ds, moore=moore, plus_one=plus_one, qinit=qinit,
                            liveness_counts_in_turn=str(seq[:round_ + 1]), game_no=n, seed=seed)
                as_set = (list(aut.win['<>[]']), list(aut.win['[]<>']))
                try:
                    with contextlib.redirect_stdout(io.StringIO()):
                        if kind == 'streett':
                            z, yij, xijk = gr1.solve_streett_game(aut)
                            if not gr1.is_realizable(z, aut) or z == aut.false:
                                break
                            gr1.make_streett_transducer(z, yij, xijk, aut)
                            mem = ['_goal']
                        else:
                            zk, yki, xkijr = gr1.solve_rabin_game(aut)
                            if not gr1.is_realizable(zk[-1], aut) or zk[-1] == aut.false:
                                break
                            gr1.make_rabin_transducer(zk, yki, xkijr, aut)
                            mem = ['_hold', '_goal']
                except (AssertionError, ValueError) as e:
                    # a refused construction is not a construction that succeeded
                    refused += 1
                    break
                built += 1
                its = None
                if kind == 'rabin':
                    sb = list()
                    for v in list(aut.varlist['env']) + list(aut.varlist['sys']):
                        d = aut.vars[v]
                        sb += [v] if d['type'] == 'bool' else list(d['bitnames'])
                    its = ([_tt(aut, zt, sb) for zt in zk],
                           [[_tt(aut, y, sb) for y in yi] for yi in yki])
                f, nr = analyse(aut, kind, mem, its, win=as_set)
                for x in f[:3]:
                    x['game'] = desc
                    x['name'] = x.get('name', '') + ' (implementation constructed again on the same automaton after its liveness lists changed length)' * (round_ > 0)
                    fails.append(x)
                if f:
                    break
        return dict(records=[], stats=dict(), functions={}, bounded=dict(
            evaluations=n, implementations_built=built, second_constructions_refused=refused,
            failures=fails[:8], kind=kind, backend=backend))
    return run


def resolve_same_automaton(kind, seed, n_pairs, backend='cudd'):
    """BOUNDED: no state kept between calls.  One automaton object is solved,
    then its actions, liveness predicates and mode attributes are REPLACED (same
    declarations) and it is solved again; each region is compared with the
    explicit-state reference of the game present at call time; the verdict
    likewise."""
    def run():
        from ovc import explicit
        rnd = random.Random(seed)
        fails = list()
        n = 0
        shapes_ = [(dict(x='bool'), dict(y='bool')), (dict(x='bool'), dict(y=(0, 2))), (dict(x=(0, 2)), dict(y='bool'))]
        qinits = [r'\A \A', r'\E \E', r'\A \E', r'\E \A']
        for pair_no in range(n_pairs):
            de, ds = rnd.choice(shapes_)
            nh, ng = rnd.choice([(1, 1), (1, 2), (2, 1)])
            aut = None
            for round_ in range(4):
                moore, plus_one = rnd.choice([(True, True), (True, False), (False, True), (False, False)])
                if round_ == 3:
                    # the variable partition changes IN PLACE between two solves: every
                    # variable of the environment moves to the component (closed system)
                    if not de:
                        break
                    moved = dict(de)
                    aut.varlist.update(env=[], sys=list(de) + list(ds))
                    de, ds = dict(), {**moved, **ds}
                    moore, plus_one = aut.moore, aut.plus_one
                    qinit = aut.qinit
                    n += 1
                    xb, yb = [], None
                    def bits(names):
                        out = list()
                        for v in names:
                            d = aut.vars[v]
                            out += [v] if d['type'] == 'bool' else list(d['bitnames'])
                        return out
                    yb = bits(list(ds))
                    base = yb + [b + "'" for b in yb]
                    gm_ = explicit.Game(0, len(yb), 0, _tt(aut, aut.action['env'], base),
                                        _tt(aut, aut.action['sys'], base), moore, plus_one)
                    st = yb
                    hs = [_tt(aut, h, st) for h in aut.win['<>[]']]
                    gl = [_tt(aut, g, st) for g in aut.win['[]<>']]
                    try:
                        with contextlib.redirect_stdout(io.StringIO()):
                            if kind == 'streett':
                                z = gr1.solve_streett_game(aut)[0]
                                want = gm_.streett(hs, gl)
                            else:
                                z = gr1.solve_rabin_game(aut)[0][-1]
                                want = gm_.rabin(hs, gl)
                    except Exception as e:
                        fails.append(dict(name='solving again after the variable partition changed runs', error=repr(e)[:200]))
                        break
                    got = _tt(aut, z, st)
                    if got != set(want) and len(fails) < 5:
                        fails.append(dict(name=f'{kind} region after the variable partition of the SAME automaton was changed in place (env variables moved to the component)',
                                          moore=moore, plus_one=plus_one, sys=str(ds), differs_at=str(sorted(got ^ set(want))[:4]), seed=seed))
                    break
                qinit = rnd.choice(qinits)
                fresh = make_game(rnd, de, ds, moore, plus_one, qinit, nh, ng, backend,
                                  base=('plain' if pair_no % 2 == 0 else 'default-' + kind))
                if getattr(fresh, 'ovc_setup_failure', None) and len(fails) < 5:
                    fails.append(dict(name='the game solved is the game given: ' + fresh.ovc_setup_failure, seed=seed, pair=pair_no))
                if aut is None:
                    aut = fresh
                    set_holds, set_goals = list(aut.win['<>[]']), list(aut.win['[]<>'])
                    if pair_no % 2:
                        # a copy of the automaton (as made for the opponent's game) is edited in
                        # place: the original's liveness lists are its own
                        import copy as _copy
                        other_ = _copy.copy(aut)
                        other_.win['<>[]'][:] = [other_.true]
                        other_.win['[]<>'].append(other_.false)
                        other_.win['[]<>'][0] = other_.false
                elif round_ == 1:
                    # same predicates, only the mode attributes change
                    old_mode = (aut.moore, aut.plus_one)
                    moore, plus_one = rnd.choice([m for m in [(True, True), (True, False), (False, True), (False, False)] if m != old_mode])
                    aut.moore, aut.plus_one = moore, plus_one
                else:
                    # same object, new game: copy the predicates into the old manager
                    cp = lambda u: fresh.bdd.copy(u, aut.bdd)
                    aut.action['env'], aut.action['sys'] = cp(fresh.action['env']), cp(fresh.action['sys'])
                    aut.init['env'], aut.init['sys'] = cp(fresh.init['env']), cp(fresh.init['sys'])
                    if pair_no % 3 != 1:
                        aut.win['<>[]'] = [cp(u) for u in fresh.win['<>[]']]
                        aut.win['[]<>'] = [cp(u) for u in fresh.win['[]<>']]
                        set_holds, set_goals = list(aut.win['<>[]']), list(aut.win['[]<>'])
                    # else: only the actions change, the caller's liveness lists stay
                    # the very same objects as in the earlier solve
                    aut.moore, aut.plus_one, aut.qinit = moore, plus_one, qinit
                n += 1

                def bits(names):
                    out = list()
                    for v in names:
                        d = aut.vars[v]
                        out += [v] if d['type'] == 'bool' else list(d['bitnames'])
                    return out
                xb, yb = bits(list(de)), bits(list(ds))
                base = xb + yb + [b + "'" for b in xb] + [b + "'" for b in yb]
                gm_ = explicit.Game(len(xb), len(yb), 0, _tt(aut, aut.action['env'], base),
                                    _tt(aut, aut.action['sys'], base), moore, plus_one)
                st = xb + yb
                # the liveness predicates AS THE CALLER SET THEM (the solvers only read them)
                hs = [_tt(aut, h, st) for h in set_holds]
                gl = [_tt(aut, g, st) for g in set_goals]
                try:
                    with contextlib.redirect_stdout(io.StringIO()):
                        if kind == 'streett':
                            z = gr1.solve_streett_game(aut)[0]
                            want = gm_.streett(hs, gl)
                        else:
                            z = gr1.solve_rabin_game(aut)[0][-1]
                            want = gm_.rabin(hs, gl)
                except Exception as e:
                    fails.append(dict(name='solving again on the same automaton object runs', error=repr(e)[:200], round=round_))
                    break
                got = _tt(aut, z, st)
                if got != set(want) and len(fails) < 5:
                    fails.append(dict(name=f'{kind} region of the game PRESENT AT CALL TIME (same automaton object solved before with another game)',
                                      round=round_, moore=moore, plus_one=plus_one, env=str(de), sys=str(ds), holds=nh, goals=ng,
                                      differs_at=str(sorted(got ^ set(want))[:4]), seed=seed))
        return dict(records=[], stats=dict(), functions={}, bounded=dict(
            evaluations=n, kind=kind, backend=backend, failures=fails[:6]))
    return run


def chain_games(backend='cudd'):
    """BOUNDED, deterministic: Rabin(1) games whose winning region grows by one
    position per OUTER iteration, the persistence sets taking turns (so the
    cycle set of a persistence predicate grows again after it stood still):
    chain of N positions, the environment chooses between staying and moving
    one position down, K persistence sets by position modulo K."""
    def run():
        from ovc import explicit
        import dd.autoref as autoref
        fails = list()
        n = 0
        for N in (3, 4, 5, 6):
            for K in (2, 3):
                for moore in (True, False):
                    for plus_one in (True, False):
                        for order in (0, 1):
                            n += 1
                            aut = trl.Automaton()
                            if backend == 'autoref':
                                aut.bdd = autoref.BDD()
                            aut.declare_variables(a='bool', b=(0, N))
                            aut.varlist = dict(env=['a'], sys=['b'])
                            aut.moore, aut.plus_one, aut.qinit = moore, plus_one, r'\A \E'
                            aut.prime_varlists()
                            pick = 'a' if moore else "a'"
                            parts = ["((b = 0) => (b' = 0))", f"((b = {N}) => (b' = {N}))", rf"(b \in 0..{N})", rf"(b' \in 0..{N})"]
                            for k in range(1, N):
                                parts.append(f"((b = {k}) => (b' = IF {pick} THEN {k - 1} ELSE {k}))")
                            aut.action['env'] = aut.true
                            aut.action['sys'] = aut.add_expr(' /\\ '.join(parts))
                            holds = [aut.add_expr(' \\/ '.join([f'(b = {k})' for k in range(N) if k % K == i] or ['FALSE']))
                                     for i in range(K)]
                            if order:
                                holds.reverse()
                            aut.win['<>[]'] = holds
                            aut.win['[]<>'] = [aut.true]
                            aut.init['env'] = aut.init['sys'] = aut.true

                            def bits(names):
                                out = list()
                                for v in names:
                                    d = aut.vars[v]
                                    out += [v] if d['type'] == 'bool' else list(d['bitnames'])
                                return out
                            xb, yb = bits(['a']), bits(['b'])
                            base = xb + yb + [x + "'" for x in xb] + [x + "'" for x in yb]
                            gm_ = explicit.Game(len(xb), len(yb), 0, _tt(aut, aut.action['env'], base),
                                                _tt(aut, aut.action['sys'], base), moore, plus_one)
                            st = xb + yb
                            hs = [_tt(aut, h, st) for h in aut.win['<>[]']]
                            gl = [_tt(aut, g, st) for g in aut.win['[]<>']]
                            try:
                                with contextlib.redirect_stdout(io.StringIO()):
                                    zk, yki, xkijr = gr1.solve_rabin_game(aut)
                            except Exception as e:
                                fails.append(dict(name='solve_rabin_game runs on a chain game', error=repr(e)[:200]))
                                continue
                            want = set(gm_.rabin(hs, gl))
                            got = _tt(aut, zk[-1], st)
                            if got != want and len(fails) < 5:
                                fails.append(dict(name='Rabin(1) region of a chain game whose persistence sets take turns over several outer iterations',
                                                  positions=N + 1, persistence_sets=K, moore=moore, plus_one=plus_one, reversed=bool(order),
                                                  outer_iterations=len(zk), differs_at=str(sorted(got ^ want)[:6])))
                            ff = _check_iterates(aut, 'rabin', (zk, yki, xkijr))
                            for x in ff[:1]:
                                x['game'] = f'chain N={N} K={K} moore={moore} plus_one={plus_one}'
                                fails.append(x)
        return dict(records=[], stats=dict(), functions={}, bounded=dict(evaluations=n, backend=backend, failures=fails[:6]))
    return run
