"""Sidecar contracts for `omega.symbolic.functions` (C14)."""
import z3

import omega.symbolic.functions as fn

from ovc import spec
from ovc.engine import SymBool


def _indep(w, t, bits):
    cs = list()
    for b in bits:
        c = w.z(b)
        cs.append(w.valid(
            z3.substitute(t, (c, z3.BoolVal(True))) ==
            z3.substitute(t, (c, z3.BoolVal(False)))))
    return z3.And(*cs) if cs else z3.BoolVal(True)


def _cof(w, t, bit, val):
    return z3.substitute(t, (w.z(bit), z3.BoolVal(val)))


class _RestrictStub:
    """Assumed contract of `dd.cudd.restrict(p, care)`:
    the result agrees with `p` on `care` and its support is within support(p).
    """

    def __init__(self, w):
        from ovc import specbdd
        self.w = w
        self.n = 0
        # the code asks `isinstance(p, _bdd.Function)`: nodes of the
        # symbolic manager play the role of cudd nodes here
        self.Function = specbdd.SNode

    def restrict(self, p, care):
        w = self.w
        self.n += 1
        bits = sorted(w.bdd.support(p))
        g = w.pred(f'restrict!{self.n}', bits)
        w.assume(w.valid(z3.Implies(w.term(care), w.term(g) == w.term(p))))
        return g


def _choose(w, items, tag):
    """Arbitrary element of a concrete collection (forks)."""
    items = sorted(items)
    for i, it in enumerate(items[:-1]):
        if w.run.decide(z3.Bool(f'{tag}_is_{it}')):
            return it
    return items[-1]


def h_extract_function(ctx):
    w = ctx.w
    bdd = w.bdd
    ins = ctx.p['inputs']
    outs = ctx.p['outputs']        # other outputs (quantified)
    yp = ctx.p['yp']
    f_bits = ctx.p.get('f_bits', ins + outs + [yp])
    f = w.pred('F', f_bits)
    tf = w.term(f)
    tu = spec.exists(w.zs(outs), tf)
    u1 = _cof(w, tu, yp, True)
    u0 = _cof(w, tu, yp, False)
    non_inputs = list(outs) + [yp]
    in_bits = [b for b in f_bits if b not in non_inputs]

    some_f1 = spec.exists(w.zs(in_bits), z3.And(u1, z3.Not(u0)))
    some_u0 = spec.exists(w.zs(in_bits), u0)

    def mk(name):
        return lambda w_, L: w_.pred(name, in_bits)

    def inv(L):
        p, n = w.term(L['p']), w.term(L['n'])
        typing = z3.BoolVal(
            (set(bdd.support(L['p'])) | set(bdd.support(L['n'])))
            <= set(in_bits))
        return [('typing', typing),
                ('p_n_disjoint', w.valid(z3.Not(z3.And(p, n)))),
                ('forced1_in_p', spec.subset(w, z3.And(u1, z3.Not(u0)), p)),
                ('u0_in_n', spec.subset(w, u0, n)),
                ('p_only_if_forced1_somewhere', spec.subset(w, p, some_f1)),
                ('n_only_if_u0_somewhere', spec.subset(w, n, some_u0))]

    loops = {0: dict(
        vars=dict(z=lambda w_, L: None, pz=mk('pz!h'), nz=mk('nz!h'),
                  disjoint=lambda w_, L: None, p=mk('p!h'), n=mk('n!h')),
        inv=inv,
        for_more=lambda w_, L: w_.run.decide(z3.Bool('more_inputs')),
        for_item=lambda w_, L: _choose(w_, L['__iter'], 'z'))}
    use_restrict = ctx.p.get('restrict', True)
    if w.symbolic:
        ovr = dict(_bdd=_RestrictStub(w) if use_restrict else None)
        if ctx.p.get('cut', True):
            g_f = ctx.fn(fn.extract_function, loops=loops, overrides=ovr)
        else:
            g_f = ctx.fn(fn.extract_function, overrides=ovr)
        g, care = ctx.call(g_f, f, yp, list(outs), bdd,
                           label='extract_function')
    else:
        saved = fn._bdd
        if not use_restrict:
            fn._bdd = None
        try:
            g, care = ctx.call(fn.extract_function, f, yp, list(outs), bdd,
                               label='extract_function')
        finally:
            fn._bdd = saved
    tg, tc = w.term(g), w.term(care)
    unrelated = [b for b in bdd.vars if b not in f_bits]
    w.oblige('extract_function.post: g and care depend only on bits f depends on',
             z3.And(_indep(w, tg, unrelated), _indep(w, tc, unrelated)))
    w.oblige('extract_function.post: g depends on no output bit',
             _indep(w, tg, non_inputs))
    w.oblige('extract_function.post: care depends on no output bit',
             _indep(w, tc, non_inputs))
    w.oblige('extract_function.post: where some output exists, yp := g satisfies (\\E outputs: f)',
             w.valid(z3.Implies(z3.Or(u1, u0), z3.If(tg, u1, u0))))
    w.oblige('extract_function.post: g takes the forced value (1 where only yp=1 works)',
             spec.subset(w, z3.And(u1, z3.Not(u0)), tg))
    w.oblige('extract_function.post: g takes the forced value (0 where only yp=0 works)',
             spec.subset(w, z3.And(u0, z3.Not(u1)), z3.Not(tg)))
    w.oblige('extract_function.post: care set contains every input where the value is forced',
             spec.subset(w, z3.Xor(u1, u0), tc))
    w.oblige('extract_function.post: care set contains every solvable input',
             spec.subset(w, z3.Or(u1, u0), tc))
    w.oblige('extract_function.post: care set is empty unless the value is pinned somewhere',
             spec.subset(w, tc, z3.Or(some_f1, some_u0)))
    w.canary('extract_function.canary: g == u1', spec.equiv(w, tg, u1))
    w.canary('extract_function.canary: care == TRUE', w.valid(tc))


def extract_stub(ctx):
    """Contract stub of `extract_function` for the proof of `make_functions`."""
    w = ctx.w
    cnt = [0]

    def stub(f, yp, outputs, bdd):
        cnt[0] += 1
        outs = list(outputs)
        w.oblige('call extract_function: requires yp not among the other outputs',
                 z3.BoolVal(yp not in outs), kind='pre')
        non_inputs = outs + [yp]
        # ensures: g and care depend only on bits that f depends on,
        # and on no output bit
        supp_f = bdd.support(f)
        in_bits = [b for b in bdd.vars
                   if b not in non_inputs and b in supp_f]
        g = w.pred(f'g!{cnt[0]}', in_bits)
        care = w.pred(f'care!{cnt[0]}', in_bits)
        tu = spec.exists(w.zs(outs), w.term(f))
        u1 = _cof(w, tu, yp, True)
        u0 = _cof(w, tu, yp, False)
        w.assume(w.valid(z3.Implies(z3.Or(u1, u0), z3.If(w.term(g), u1, u0))))
        w.assume(spec.subset(w, z3.Or(u1, u0), w.term(care)))
        return g, care
    return stub


def h_make_functions(ctx):
    w = ctx.w
    bdd = w.bdd
    ins = ctx.p['inputs']
    vrs = ctx.p['vrs']
    r_bits = ctx.p.get('r_bits', ins + vrs)
    r = w.pred('R', r_bits)
    tr = w.term(r)
    if w.symbolic:
        mf = ctx.fn(fn.make_functions,
                    overrides=dict(extract_function=extract_stub(ctx)))
    else:
        mf = fn.make_functions
    arg = list(vrs)
    if ctx.p.get('dup'):
        # `vrs` is any collection of output bits: order and repetitions
        # must not matter
        arg = list(reversed(arg)) + [arg[0]]
    form = ctx.p.get('form', 'list')
    if form == 'set':
        arg = set(arg)
    elif form == 'tuple':
        arg = tuple(arg)
    elif form == 'iter':
        # any iterable: a one-shot iterator can be read once only
        arg = iter(list(arg))
    elif form == 'keys':
        arg = dict.fromkeys(arg).keys()
    before = None if form == 'iter' else list(arg)
    # a loud refusal (TypeError / ValueError) of the less usual containers is not a
    # wrong result; a returned result is held to the contract whatever the container
    exotic = form in ('iter', 'keys')
    fs = ctx.call(mf, r, arg, bdd, label='make_functions',
                  allowed=(lambda e: isinstance(e, (TypeError, ValueError))) if exotic else None)
    if before is not None:
        w.oblige(f'make_functions.frame: the caller\'s collection of outputs ({form}) is left as it was',
                 z3.BoolVal(list(arg) == before and len(arg) == len(before)))
    w.oblige('make_functions.post: functions only for requested outputs',
             z3.BoolVal(set(fs) <= set(vrs)))
    w.oblige('make_functions.post: an output without a function is ignored by the relation',
             _indep(w, tr, [v for v in vrs if v not in fs]))
    pairs = list()
    for y, d in fs.items():
        tg = w.term(d['function'])
        w.oblige(f'make_functions.post: function of {y} depends on no output bit',
                 _indep(w, tg, vrs))
        w.oblige(f'make_functions.post: care set of {y} depends on no output bit',
                 _indep(w, w.term(d['care_set']), vrs))
        pairs.append((w.z(y), tg))
    solvable = spec.exists(w.zs(vrs), tr)
    subst = z3.substitute(tr, *pairs) if pairs else tr
    # ignored outputs (declared in vrs, not read by r) stay free: any value
    w.oblige('make_functions.post: wherever some output exists, the functions\' values satisfy the relation',
             w.valid(z3.Implies(solvable, subst)))
    w.canary('make_functions.canary: substituted relation is valid',
             w.valid(subst))


FUNCTIONS = dict(extract_function=h_extract_function,
                 make_functions=h_make_functions)


def backend_sequence(seed, n, order):
    """BOUNDED: `make_functions` on managers of both back ends one after the
    other in ONE fresh interpreter (contracts/drivers/functions_sequence.py):
    no state may carry over from one manager type to the other."""
    def run():
        import json
        import os
        import subprocess
        import sys
        from ovc import run as _run
        drv = os.path.join(os.path.dirname(os.path.abspath(__file__)), 'drivers', 'functions_sequence.py')
        out = subprocess.run([sys.executable, drv, os.path.abspath(_run.REPO), str(seed), str(n), order],
                             capture_output=True, text=True, timeout=900)
        line = [x for x in out.stdout.splitlines() if x.startswith('{')]
        if out.returncode != 0 or not line:
            raise RuntimeError(f'functions_sequence driver failed: {out.stderr[-600:]}')
        d = json.loads(line[-1])
        return dict(records=[], stats=dict(), functions={
            'omega.symbolic.functions.make_functions': dict(source_lines=0, cut={}, stubs=[], dropped='run natively in a fresh interpreter: bounded')},
            bounded=dict(evaluations=d['evaluations'], order=order, failures=d['failures']))
    return run
