"""Stage-wise contracts for the shift-add multiplier and the restoring divider
(C06): unbounded in the operand width up to the translator's 32-bit limit.

Two layers, both machine-checked:

* BIT LEVEL (z3 bit-vector theory): the real stage function, re-extracted from
  source, with its recursive call and `adder_subtractor` / `abs_` /
  `_negate_if` replaced by contract stubs, computes one step of the textbook
  recurrence.  A stub returns registers addressing fresh memory atoms; the fact
  its contract ensures is asserted once the caller's memory is known (memory is
  append-only, addresses absolute).
* ARITHMETIC LEVEL (z3 integers, no bits): the recurrences imply the product /
  the C99 quotient and remainder, by induction over the stages.

Bridge between the layers (trusted, = SMT-LIB semantics of the BV theory):
bit-vector add/sub/shl of width n are integer add/sub/multiply-by-2^k modulo
2^n, and the signed/unsigned value of a bit-vector is `sval`/`uval` of its bits.
"""
import z3

import omega.logic.bitvector as bv

from ovc import circuit as cc
from contracts.bv_circuits import _fn, _ext


def _sext(ts, n):
    return cc.bv_of(_ext(ts, n))


class Stubs:
    def __init__(self, circ, run):
        self.c = circ
        self.run = run
        self.deferred = list()
        self.n = 0
        self.pre = list()

    def fresh(self, n, start, tag, extra=1):
        self.n += 1
        cells = self.c.atoms(f'{tag}{self.n}_', n + extra)
        return [f'? {start + i}' for i in range(n)], list(cells)

    def adder(self):
        c = self.c

        def stub(x, y, add=True, start=0, extend_by=1):
            self.n += 1
            n = max(len(x), len(y)) + extend_by
            self.pre.append((
                'call adder_subtractor: requires operand widths >= 2 and result width < 32',
                len(x) >= 2 and len(y) >= 2 and n < 32))
            atoms = c.atoms(f'add{self.n}_', 2 * n)
            res = [f'? {start + 2 * i}' for i in range(n)]
            carry = f'? {start + 2 * n - 1}'
            x, y = list(x), list(y)

            def fact(vals, x=x, y=y, res=res, n=n, add=add):
                a = _sext(c.eval_bits(x, vals), n)
                b = _sext(c.eval_bits(y, vals), n)
                r = cc.bv_of(c.eval_bits(res, vals))
                return r == (a + b if add else a - b)
            self.deferred.append(fact)
            return res, list(atoms), carry
        return stub

    def flush(self, vals):
        for name, ok in self.pre:
            self.run.oblige(name, z3.BoolVal(bool(ok)), kind='pre')
        for f in self.deferred:
            self.run.assume(f(vals))


# ---------------------------------------------------------------------------
# multiplier

def h_mul_stage(N, s, start, top=False):
    """Stage s of `_multiplier` on N-bit operands (bit level):
    res_s = res_{s-1} + (y_s ? x << s : 0)   modulo 2^N."""
    def h(run, functions):
        c = cc.Circ()
        st = Stubs(c, run)
        junk = c.junk(start)
        x = c.operand('a', N)
        y = c.operand('b', N)
        rec = dict()

        def rec_stub(x_, y_, s=None, start=0):
            rec['args'] = (list(x_), list(y_), s, start)
            if s == -1:          # base case exactly as coded
                rec['res'] = ['0'] * len(x_)
                return list(rec['res']), []
            cells = c.atoms('acc', N + 3)   # some amount of memory
            rec['res'] = [f'? {start + i}' for i in range(N)]
            return list(rec['res']), list(cells)
        f = _fn(functions, bv._multiplier,
                overrides=dict(_multiplier=rec_stub,
                               adder_subtractor=st.adder()))
        if top:
            res, mem = f(list(x), list(y), s=None, start=start)
            s_eff = N - 1
        else:
            res, mem = f(list(x), list(y), s=s, start=start)
            s_eff = s
        cells = junk + mem
        vals = c.eval_mem(cells)
        run.oblige('_multiplier.stage: recursive call is stage s-1 on the same operands at the given start',
                   z3.BoolVal(rec['args'][0] == list(x) and rec['args'][1] == list(y)
                              and rec['args'][2] == s_eff - 1
                              and rec['args'][3] == start), kind='pre')
        st.flush(vals)
        prev = cc.bv_of(c.eval_bits(rec['res'], vals))
        tx, ty = c.eval_bits(x, vals), c.eval_bits(y, vals)
        r = cc.bv_of(c.eval_bits(res, vals))
        X = cc.bv_of(tx)
        run.oblige('_multiplier.stage: res_s = res_{s-1} + (y_s ? x << s : 0) mod 2^N; len(res) = N; registers in range',
                   z3.And(z3.BoolVal(len(res) == N and
                                     cc.registers_in_range(res, len(cells))),
                          r == prev + z3.If(ty[s_eff], X << s_eff,
                                            z3.BitVecVal(0, N))))
        run.canary('_multiplier.stage canary: res_s = res_{s-1}', r == prev)
    return h


def h_mul_lemmas(N):
    """Arithmetic level, width N = nx + ny.  With M = 2^N, P = uval(x),
    U_s = uval(res_s), Yl_s = low s+1 bits of y:

    L3: U_{s-1} = V mod M  and  U_s = (U_{s-1} + b * ((P 2^s) mod M)) mod M
        =>  U_s = (V + b P 2^s) mod M
    L4: V = P * Yl  =>  V + b P 2^s = P * (Yl + b 2^s)
    so U_{N-1} = (P * uval(y)) mod M.
    """
    def h(run, functions):
        M = 2 ** N
        U, V, P, U2, Yl = z3.Ints('U V P U2 Yl')
        b = z3.Bool('b')
        for s in range(N):
            run.oblige(f'multiplier.lemma L3[N={N}]: stage recurrence modulo 2^N tracks the unbounded partial sum',
                       z3.Implies(
                           z3.And(0 <= P, P < M, U == V % M,
                                  U2 == (U + z3.If(b, (P * 2 ** s) % M, 0)) % M),
                           U2 == (V + z3.If(b, P * 2 ** s, 0)) % M))
            run.oblige(f'multiplier.lemma L4[N={N}]: partial sum = P * (low bits of y), induction step',
                       z3.Implies(V == P * Yl,
                                  V + z3.If(b, P * 2 ** s, 0)
                                  == P * (Yl + z3.If(b, 2 ** s, 0))))
        run.canary('multiplier.lemma canary', V == P * Yl)
    return h


def h_mul_wrapper(nx, ny, start, sx='var', sy='var'):
    """`multiplier(x, y)`: `_multiplier` by its full contract (all stages:
    res = p * q modulo 2^N, i.e. stages + L3 + L4); proves that the operands
    are the sign extensions to N = nx + ny bits, the result register is passed
    through, and (integers) that the signed N-bit product is exact."""
    def h(run, functions):
        c = cc.Circ()
        junk = c.junk(start)
        x = c.operand('a', nx, sx)
        y = c.operand('b', ny, sy)
        N = nx + ny
        rec = dict()

        def mul_stub(p, q, s=None, start=0):
            rec['args'] = (list(p), list(q), s, start)
            cells = c.atoms('prod', len(p) + 2)
            rec['res'] = [f'? {start + i}' for i in range(len(p))]
            return list(rec['res']), list(cells)
        f = _fn(functions, bv.multiplier, overrides=dict(_multiplier=mul_stub))
        res, mem = f(list(x), list(y), start=start)
        cells = junk + mem
        vals = c.eval_mem(cells)
        p, q, s_, st_ = rec['args']
        run.oblige('call _multiplier: equal operand widths nx+ny, all stages, at the given start',
                   z3.BoolVal(len(p) == len(q) == N and s_ is None
                              and st_ == start), kind='pre')
        tp, tq = c.eval_bits(p, vals), c.eval_bits(q, vals)
        tx, ty = c.eval_bits(x, vals), c.eval_bits(y, vals)
        run.oblige('multiplier: operands are sign-extended to nx+ny bits',
                   z3.And(cc.bv_of(tp) == _sext(tx, N),
                          cc.bv_of(tq) == _sext(ty, N)))
        run.oblige('multiplier.post: len(res) = nx + ny and res is the product register (no truncation below 32 bits)',
                   z3.BoolVal(len(res) == N and res == rec['res']
                              and cc.registers_in_range(res, len(cells))))
        # integers only: the signed reading of (P Q) mod M is X Y
        M = 2 ** N
        X, Y, P, Q, R, T, K, U = z3.Ints('X Y P Q R T K U')
        a, b = z3.Bools('sa sb')
        rng = [-2 ** (nx - 1) <= X, X < 2 ** (nx - 1),
               -2 ** (ny - 1) <= Y, Y < 2 ** (ny - 1)]
        k = z3.If(a, Y, 0) + z3.If(b, X, 0) + z3.If(z3.And(a, b), M, 0)
        run.oblige('multiplier.lemma L5a: (X + a M)(Y + b M) = X Y + M k',
                   z3.Implies(z3.And(P == X + z3.If(a, M, 0),
                                     Q == Y + z3.If(b, M, 0)),
                              P * Q == X * Y + M * k))
        run.oblige('multiplier.lemma L5b: |X Y| <= 2^(N-2) for operands in range',
                   z3.Implies(z3.And(*rng), z3.And(X * Y <= 2 ** (N - 2),
                                                   X * Y >= -2 ** (N - 2))))
        run.oblige('multiplier.lemma L5c: the signed reading of (T + M K) mod M is T when |T| <= M/4',
                   z3.Implies(z3.And(U == (T + M * K) % M, -(M // 4) <= T,
                                     T <= M // 4,
                                     R == z3.If(U >= M // 2, U - M, U)),
                              R == T))
        run.canary('multiplier.wrapper canary: p = q', cc.bv_of(tp) == cc.bv_of(tq))
    return h


# ---------------------------------------------------------------------------
# divider

def h_div_stage(n, s, start, top=False, ny=None):
    """Stage s of `_restoring_divider` (bit level, 2n-bit registers).

    requires 0 <= P_{s-1} < D < 2^(2n-1)   (unsigned)
    ensures  q_s <=> 2 P_{s-1} >= D;  P_s = 2 P_{s-1} - (q_s ? D : 0) without
             wrap-around;  P_s < D;  quo_s = [q_s] + quo_{s-1};
             top stage returns the high half of P_{n-1}.
    """
    def h(run, functions):
        c = cc.Circ()
        st = Stubs(c, run)
        junk = c.junk(start)
        x = c.operand('a', n, '0')
        if top:
            y = c.operand('b', ny if ny is not None else n, '0')
        else:
            y = c.atoms('d', 2 * n)           # the already shifted divisor
        rec = dict()

        def rec_stub(x_, y_, s=None, start=0):
            rec['args'] = (list(x_), list(y_), s, start)
            if s == -1:          # base case exactly as coded
                quo = list()
                rem = bv.pad(list(x_), 2 * len(x_))
                rec['quo'], rec['rem'] = list(quo), list(rem)
                return quo, rem, []
            k = s + 1
            cells = c.atoms('pr', 2 * n + k + 2)
            rec['quo'] = [f'? {start + 2 * n + i}' for i in range(k)]
            rec['rem'] = [f'? {start + i}' for i in range(2 * n)]
            return list(rec['quo']), list(rec['rem']), list(cells)
        f = _fn(functions, bv._restoring_divider,
                overrides=dict(_restoring_divider=rec_stub,
                               adder_subtractor=st.adder()))
        if top:
            quo, rem, mem = f(list(x), list(y), start=start)
            s_eff = n - 1
        else:
            quo, rem, mem = f(list(x), list(y), s, start=start)
            s_eff = s
        cells = junk + mem
        vals = c.eval_mem(cells)
        st.flush(vals)
        ydiv = rec['args'][1]
        run.oblige('_restoring_divider.stage: recursive call is stage s-1 on the same dividend and a 2n-bit divisor register, at the given start',
                   z3.BoolVal(rec['args'][0] == list(x) and rec['args'][2] == s_eff - 1
                              and rec['args'][3] == start and len(ydiv) == 2 * n),
                   kind='pre')
        W = 2 * n
        D = cc.bv_of(c.eval_bits(ydiv, vals))
        if top:
            ty = c.eval_bits(y, vals)
            Wb = W + len(ty) + n
            run.oblige('_restoring_divider.top: shifted divisor D = uval(y) * 2^n exactly (no divisor bit lost; needs len(y) <= len(x))',
                       z3.ZeroExt(Wb - W, D)
                       == (z3.ZeroExt(Wb - len(ty), cc.bv_of(ty)) << n))
        P0 = cc.bv_of(c.eval_bits(rec['rem'], vals))
        if s_eff - 1 == -1:
            tx = c.eval_bits(x, vals)
            run.oblige('_restoring_divider.stage0: P_{-1} = x zero-padded to 2n bits, no quotient bits yet',
                       z3.And(P0 == z3.ZeroExt(W - n, cc.bv_of(tx)),
                              z3.BoolVal(len(rec['quo']) == 0)))
        # requires
        half = z3.BitVecVal(2 ** (W - 1), W)
        run.assume(z3.ULT(P0, D))
        run.assume(z3.ULT(D, half))
        tq = c.eval_bits(quo, vals)
        tQ = c.eval_bits(rec['quo'], vals)
        qs = tq[0]
        twoP = P0 << 1
        Pfull = z3.If(qs, twoP - D, twoP)
        run.oblige('_restoring_divider.stage: q_s <=> 2 P_{s-1} >= D   (2 P_{s-1} does not wrap)',
                   z3.And(z3.ULT(P0, half), qs == z3.UGE(twoP, D)))
        r = cc.bv_of(c.eval_bits(rem, vals))
        if top:
            run.oblige('_restoring_divider.top: remainder = high half of P_{n-1}, n bits; P_{n-1} < D',
                       z3.And(z3.BoolVal(len(rem) == n),
                              r == z3.Extract(W - 1, n, Pfull),
                              z3.ULT(Pfull, D)))
        else:
            run.oblige('_restoring_divider.stage: P_s = 2 P_{s-1} - (q_s ? D : 0) and P_s < D',
                       z3.And(z3.BoolVal(len(rem) == W), r == Pfull,
                              z3.ULT(Pfull, D)))
        same_old = z3.And(*[a == b for a, b in zip(tq[1:], tQ)]) \
            if tQ else z3.BoolVal(True)
        run.oblige('_restoring_divider.stage: quo_s = [q_s] + quo_{s-1}; registers in range',
                   z3.And(z3.BoolVal(len(quo) == len(rec['quo']) + 1 and
                                     cc.registers_in_range(quo + rem, len(cells))),
                          same_old))
        run.canary('_restoring_divider.stage canary: q_s is TRUE', qs)
    return h


def h_div_lemmas(n):
    """Arithmetic level for the restoring divider on n-bit non-negative
    operands: from P_{-1} = x, D = y 2^n, P_s = 2 P_{s-1} - q_s D < D,
    Q_s = 2 Q_{s-1} + q_s:  x = Q y + r, 0 <= r < y with r = P_{n-1} div 2^n."""
    def h(run, functions):
        X, Y, D, P0, P1, Q0, Q1, R = z3.Ints('X Y D P0 P1 Q0 Q1 R')
        q = z3.Bool('q')
        for s in range(n):
            run.oblige(f'restoring_divider.lemma[n={n}]: P_s = 2^(s+1) x - Q_s D, induction step',
                       z3.Implies(z3.And(P0 == 2 ** s * X - Q0 * D,
                                         P1 == 2 * P0 - z3.If(q, D, 0),
                                         Q1 == 2 * Q0 + z3.If(q, 1, 0)),
                                  P1 == 2 ** (s + 1) * X - Q1 * D))
        run.oblige(f'restoring_divider.lemma[n={n}]: closing: x = Q y + r, 0 <= r < y',
                   z3.Implies(z3.And(P1 == 2 ** n * X - Q1 * D, D == Y * 2 ** n,
                                     P1 >= 0, P1 < D, R == P1 / (2 ** n)),
                              z3.And(X == Q1 * Y + R, R >= 0, R < Y)))
        run.oblige(f'restoring_divider.lemma[n={n}]: precondition of stage 0 (x < D < 2^(2n-1)) holds when y >= 1',
                   z3.Implies(z3.And(0 <= X, X < 2 ** (n - 1), 1 <= Y,
                                     Y < 2 ** (n - 1), D == Y * 2 ** n),
                              z3.And(X < D, D < 2 ** (2 * n - 1))))
        run.oblige(f'restoring_divider.lemma[n={n}]: quotient fits: 0 <= Q <= x',
                   z3.Implies(z3.And(X == Q1 * Y + R, R >= 0, Y >= 1, X >= 0,
                                     Q1 >= 0), Q1 <= X))
        # sign fix-up (C99): pure integer lemma
        A, B, Qs, Rs = z3.Ints('A B Qs Rs')
        hyp = z3.And(Y != 0, A == z3.If(X < 0, -X, X), B == z3.If(Y < 0, -Y, Y),
                     A == Q1 * B + R, R >= 0, R < B,
                     Qs == z3.If((X < 0) != (Y < 0), -Q1, Q1),
                     Rs == z3.If(X < 0, -R, R))
        absRs = z3.If(Rs < 0, -Rs, Rs)
        run.oblige('restoring_divider.lemma: sign fix-up gives C99 truncation: x = q y + r, |r| < |y|, r = 0 or sign(r) = sign(x)',
                   z3.Implies(hyp, z3.And(X == Qs * Y + Rs, absRs < B,
                                          z3.Or(Rs == 0, (Rs < 0) == (X < 0)))))
        run.canary('restoring_divider.lemma canary', X == Q1 * Y)
    return h


def h_div_wrapper(nx, ny, start, sx='var', sy='var'):
    """`restoring_divider(x, y)` wiring against the contracts of `abs_`,
    `_restoring_divider` (all stages) and `_negate_if` (bit level): the divider
    gets |x| and |y| with the divisor no wider than the dividend; quotient is
    negated iff the signs differ, remainder iff x < 0."""
    def h(run, functions):
        c = cc.Circ()
        st = Stubs(c, run)
        junk = c.junk(start)
        x = c.operand('a', nx, sx)
        y = c.operand('b', ny, sy)
        log = dict(abs=[], neg=[])
        div = dict()

        def abs_stub(x_, start=0):
            r, cells = st.fresh(len(x_) + 1, start, 'abs')
            log['abs'].append((list(x_), list(r)))
            return list(r), cells

        def neg_stub(guard, x_, start=0):
            r, cells = st.fresh(len(x_) + 1, start, 'neg')
            log['neg'].append((guard, list(x_), list(r)))
            return list(r), cells

        def div_stub(a, b, s=None, start=0):
            n = len(a)
            quo, c1 = st.fresh(n, start, 'quo')
            rem, c2 = st.fresh(n, start + len(c1), 'rem')
            div.update(a=list(a), b=list(b), s=s, start=start,
                       quo=list(quo), rem=list(rem))
            return list(quo), list(rem), c1 + c2
        f = _fn(functions, bv.restoring_divider,
                overrides=dict(abs_=abs_stub, _negate_if=neg_stub,
                               _restoring_divider=div_stub))
        quo, rem, mem = f(list(x), list(y), start=start)
        cells = junk + mem
        vals = c.eval_mem(cells)
        ev = lambda bits: c.eval_bits(bits, vals)
        ok_calls = (len(log['abs']) == 2 and len(log['neg']) == 2
                    and log['abs'][0][0] == list(x)
                    and log['abs'][1][0] == list(y))
        run.oblige('restoring_divider: abs_ is applied to x and to y',
                   z3.BoolVal(ok_calls), kind='pre')
        if not ok_calls:
            return
        ax, ay = log['abs'][0][1], log['abs'][1][1]

        def same(p, q):
            if len(p) != len(q):
                return z3.BoolVal(False)
            return z3.And(*[a == b for a, b in zip(ev(p), ev(q))])
        # the divider must see |x| and |y| as numbers (any sign-preserving
        # widening is fine) and a divisor no wider than the dividend
        wa, wb = len(div['a']), len(div['b'])
        run.oblige('call _restoring_divider: dividend = |x|, divisor = |y| (as values), all stages',
                   z3.And(z3.BoolVal(div['s'] is None and wa >= len(ax)
                                     and wb >= len(ay)),
                          cc.bv_of(ev(div['a'])) == _sext(ev(ax), wa)
                          if wa >= len(ax) else z3.BoolVal(False),
                          cc.bv_of(ev(div['b'])) == _sext(ev(ay), wb)
                          if wb >= len(ay) else z3.BoolVal(False)),
                   kind='pre')
        run.oblige('call _restoring_divider: requires len(divisor) <= len(dividend) (else the shift by n drops divisor bits)',
                   z3.BoolVal(wb <= wa), kind='pre')
        tx, ty = ev(x), ev(y)
        xneg, yneg = tx[-1], ty[-1]
        (g1, v1, r1), (g2, v2, r2) = log['neg']
        run.oblige('restoring_divider: quotient = _negate_if(sign(x) xor sign(y), divider quotient)',
                   z3.And(c.eval_bit(g1, vals) == z3.Xor(xneg, yneg),
                          same(v1, div['quo']), z3.BoolVal(quo == r1)))
        run.oblige('restoring_divider: remainder = _negate_if(sign(x), divider remainder)',
                   z3.And(c.eval_bit(g2, vals) == xneg,
                          same(v2, div['rem']), z3.BoolVal(rem == r2)))
        run.oblige('restoring_divider.post: registers address own cells',
                   z3.BoolVal(cc.registers_in_range(quo + rem, len(cells))))
        run.canary('restoring_divider.wrapper canary: signs equal', xneg == yneg)
    return h
