"""Sidecar contracts for the AST node classes of `omega.logic.bitvector`
(structural induction over the syntax tree, C06) and end-to-end instances
through the real `Context.add_expr`.

Induction hypothesis (= contract of `flatten` for an operand): in arithmetic
context it returns a bit list of width 2 <= w < 32 whose registers address
cells already in `mem`, leaves earlier cells unchanged, and denotes the
operand's value; in Boolean context it returns a prefix string denoting the
operand's truth value.  Operand stubs return fresh atoms / registers after
appending a few cells to the shared memory.
"""
import z3

import omega.logic.bitvector as bv

from ovc import circuit as cc
from ovc import denote
from contracts.bv_circuits import _fn, _ext, _CMP
from contracts.bv_stages import _sext


class ArithOperand:
    """Stub operand in arithmetic context (induction hypothesis)."""

    def __init__(self, circ, tag, width, njunk, log):
        self.c, self.tag, self.width, self.njunk = circ, tag, width, njunk
        self.log = log
        self.bits = None

    def flatten(self, mem=None, *arg, **kw):
        assert mem is not None, 'arithmetic operand flattened in Boolean scope'
        start = len(mem)
        cells = self.c.atoms(f'{self.tag}m', self.njunk + self.width)
        mem.extend(cells)
        # value bits live in registers of the cells just appended
        self.bits = [f'? {start + self.njunk + i}' for i in range(self.width)]
        self.log.append((self.tag, start, len(cells), dict(kw)))
        return list(self.bits)


class BoolOperand:
    """Stub operand in Boolean context."""

    def __init__(self, circ, tag, log):
        self.c, self.tag, self.log = circ, tag, log
        self.atom = circ.atoms(tag, 1)[0]

    def flatten(self, mem=None, *arg, **kw):
        self.log.append((self.tag, mem is None, dict(kw)))
        return self.atom


def h_arith_node(op, nx, ny, pre_cells=2):
    """`Nodes.Arithmetic.flatten`: IH for the operands => IH for the node."""
    def h(run, functions):
        c = cc.Circ()
        log = list()
        X = ArithOperand(c, 'x', nx, 1, log)
        Y = ArithOperand(c, 'y', ny, 2, log)
        node = bv.Nodes.Arithmetic(op, X, Y)
        flat = _fn(functions, bv.Nodes.Arithmetic.flatten)
        mem = list(c.junk(pre_cells))
        before = list(mem)
        r = flat(node, mem=mem, t=dict(), defs=None)
        vals = c.eval_mem(mem)
        run.oblige('Arithmetic.flatten: result is a bit list of width 2 <= w < 32 addressing existing cells; earlier cells unchanged',
                   z3.BoolVal(isinstance(r, list) and 2 <= len(r) < 32
                              and cc.registers_in_range(r, len(mem))
                              and mem[:len(before)] == before
                              and [e[0] for e in log] == ['x', 'y']))
        tx, ty = c.eval_bits(X.bits, vals), c.eval_bits(Y.bits, vals)
        tr = c.eval_bits(r, vals)
        Wd = 40
        a, b, rr = _sext(tx, Wd), _sext(ty, Wd), _sext(tr, Wd)
        if op == '+':
            goal = rr == a + b
        elif op == '-':
            goal = rr == a - b
        elif op == '*':
            goal = rr == a * b
        elif op == '/':
            goal = z3.Implies(b != 0, rr == a / b)
        elif op == '%':
            goal = z3.Implies(b != 0, rr == z3.SRem(a, b))

        def pyspec(iv):
            x_, y_ = iv['x'], iv['y']
            if op == '+':
                return dict(r=x_ + y_)
            if op == '-':
                return dict(r=x_ - y_)
            if op == '*':
                return dict(r=x_ * y_)
            if y_ == 0:
                return dict(r=None)
            q = abs(x_) // abs(y_) * (1 if (x_ < 0) == (y_ < 0) else -1)
            return dict(r=q if op == '/' else x_ - q * y_)
        from contracts.bv_circuits import _replay
        rp = _replay(c, mem, dict(x=X.bits, y=Y.bits), dict(r=r), pyspec)
        run.oblige(f'Arithmetic.flatten: value(node) = value(x) {op} value(y)   (exact integers; C99 for / and %)',
                   goal, replay=rp)
        run.canary('Arithmetic.flatten canary: value(node) = value(x)', rr == a)
    return h


def h_comparator_node(op, nx, ny):
    def h(run, functions):
        c = cc.Circ()
        log = list()
        X = ArithOperand(c, 'x', nx, 1, log)
        Y = ArithOperand(c, 'y', ny, 0, log)
        node = bv.Nodes.Comparator(op, X, Y)
        flat = _fn(functions, bv.Nodes.Comparator.flatten)
        s = flat(node, mem=None, t=dict(), defs=None)
        tb = c.eval_bit(s, [])
        # operands' cells are the first cells of the comparator's own buffer
        # operand registers: x cells first, then y (layout fixed by the stubs)
        xs = [f'? {1 + i}' for i in range(nx)]
        ys = [f'? {1 + nx + i}' for i in range(ny)]
        cells = [f'xm{i}' for i in range(1 + nx)] + [f'ym{i}' for i in range(ny)]
        vals = c.eval_mem(cells)
        a = _sext(c.eval_bits(xs, vals), 40)
        b = _sext(c.eval_bits(ys, vals), 40)
        run.oblige('Comparator.flatten: a self-contained Boolean string; operands flattened into its own memory',
                   z3.BoolVal(isinstance(s, str) and X.bits == xs and Y.bits == ys))
        run.oblige(f'Comparator.flatten: value(node) <=> value(x) {op} value(y)',
                   tb == _CMP[op](a, b))
        # Boolean operands under = and #
        if op in ('=', '#', '/=', '!='):
            P, Q = BoolOperand(c, 'p', []), BoolOperand(c, 'q', [])
            s2 = flat(bv.Nodes.Comparator(op, P, Q), mem=None, t=dict(), defs=None)
            t2 = c.eval_bit(s2, [])
            eq = c.z(P.atom) == c.z(Q.atom)
            run.oblige(f'Comparator.flatten: Boolean operands: value(node) <=> (p {op} q)',
                       t2 == (eq if op == '=' else z3.Not(eq)))
        run.canary('Comparator.flatten canary: TRUE', tb)
    return h


_CONN = {'/\\': z3.And, r'\/': z3.Or, '=>': z3.Implies,
         '<=>': lambda a, b: a == b, '^': z3.Xor}


def h_binary_node(op):
    """Every propositional connective of the documented grammar is accepted
    and means what it says."""
    def h(run, functions):
        c = cc.Circ()
        log = list()
        P, Q = BoolOperand(c, 'p', log), BoolOperand(c, 'q', log)
        flat = _fn(functions, bv.Nodes.Binary.flatten)
        node = bv.Nodes.Binary(op, P, Q)
        try:
            s = flat(node, mem=None, t=dict(), defs=None)
        except Exception as e:
            run.refusal(f'Binary.flatten: connective "{op}" of the documented grammar is accepted', e, False)
            return
        tb = c.eval_bit(s, [])
        run.oblige(f'Binary.flatten: value(p {op} q) is the connective\'s truth table',
                   tb == _CONN[op](c.z(P.atom), c.z(Q.atom)))
        run.canary('Binary.flatten canary: p', tb == c.z(P.atom))
    return h


def h_range_node(ne, lo, hi):
    """`e \\in a..b`  <=>  a <= e <= b."""
    def h(run, functions):
        c = cc.Circ()

        class VarLike:
            # the translator accepts `e \in a..b` only for operands that need
            # no memory (variables, numerals): bits are plain atoms
            bits = c.operand('e', ne)

            def flatten(self, *arg, **kw):
                return list(self.bits)
        E = VarLike()
        rng = bv.Nodes.Binary('..', bv.Nodes.Num(str(lo)), bv.Nodes.Num(str(hi)))
        node = bv.Nodes.Binary(r'\in', E, rng)
        flat = _fn(functions, bv.Nodes.Binary.flatten)
        s = flat(node, mem=None, t=dict(), defs=None)
        vals = []
        tb = c.eval_bit(s, vals)
        e = _sext(c.eval_bits(E.bits, vals), 40)
        run.oblige(f'Binary.flatten: e \\in {lo}..{hi} <=> {lo} <= value(e) <= {hi}',
                   tb == z3.And(z3.BitVecVal(lo, 40) <= e,
                                e <= z3.BitVecVal(hi, 40)))
        run.canary('range canary', tb)
    return h


def h_unary_ite_nodes(n):
    def h(run, functions):
        c = cc.Circ()
        P, Q, G = (BoolOperand(c, t_, []) for t_ in 'pqg')
        flat = _fn(functions, bv.Nodes.Unary.flatten)
        s = flat(bv.Nodes.Unary('~', P), mem=None, t=dict())
        run.oblige('Unary.flatten: ~ p', c.eval_bit(s, []) == z3.Not(c.z(P.atom)))
        log = list()
        P2 = BoolOperand(c, 'r', log)
        flat(bv.Nodes.Unary('X', P2), mem=None, t=dict())
        flat(bv.Nodes.Unary("'", P2), mem=None, t=dict())
        run.oblige('Unary.flatten: X / prime pass prime=True to the operand',
                   z3.BoolVal(all(e[2].get('prime') is True for e in log)
                              and len(log) == 2))
        oflat = _fn(functions, bv.Nodes.Operator.flatten)
        s = oflat(bv.Nodes.Operator('ite', G, P, Q), mem=None, t=dict())
        run.oblige('Operator.flatten: ite(g, p, q) Boolean level',
                   c.eval_bit(s, []) == z3.If(c.z(G.atom), c.z(P.atom), c.z(Q.atom)))
        A = ArithOperand(c, 'a', n, 1, [])
        B = ArithOperand(c, 'b', max(2, n - 1), 0, [])
        mem = list(c.junk(1))
        r = oflat(bv.Nodes.Operator('ite', G, A, B), mem=mem, t=dict())
        vals = c.eval_mem(mem)
        run.oblige('Operator.flatten: ite(g, a, b) arithmetic level: value = IF g THEN value(a) ELSE value(b)',
                   z3.And(z3.BoolVal(cc.registers_in_range(r, len(mem))),
                          _sext(c.eval_bits(r, vals), 40) == z3.If(
                              c.eval_bit(G.atom, vals),
                              _sext(c.eval_bits(A.bits, vals), 40),
                              _sext(c.eval_bits(B.bits, vals), 40))))
        s = oflat(bv.Nodes.Operator('/\\', P, Q, G), mem=None, t=dict())
        run.oblige('Operator.flatten: n-ary conjunction',
                   c.eval_bit(s, []) == z3.And(c.z(P.atom), c.z(Q.atom), c.z(G.atom)))
        s = oflat(bv.Nodes.Operator(r'\/', P, Q, G), mem=None, t=dict())
        run.oblige('Operator.flatten: n-ary disjunction',
                   c.eval_bit(s, []) == z3.Or(c.z(P.atom), c.z(Q.atom), c.z(G.atom)))
        run.canary('nodes canary', c.z(P.atom))
    return h


def h_numerals(lo, hi):
    """`int_to_twos_complement` on every numeral of a window (digit-string
    code: bounded, exhaustive window) and `twos_complement_to_int`."""
    def run_():
        f = bv.int_to_twos_complement
        g = bv.twos_complement_to_int
        fails = list()
        n = 0
        for k in range(lo, hi + 1):
            n += 1
            bits = f(str(k))
            val = cc.to_int([b == '1' for b in bits])
            want_w = max(k.bit_length(), 1) + 1
            if val != k or len(bits) != want_w or g(bits) != k or not all(
                    b in '01' for b in bits):
                fails.append(dict(name='int_to_twos_complement', k=k, bits=bits))
        return dict(records=[], stats=dict(), functions={
            'omega.logic.bitvector.int_to_twos_complement': dict(source_lines=0, cut={}, dropped='run natively (digit-string code): bounded', stubs=[]),
            'omega.logic.bitvector.twos_complement_to_int': dict(source_lines=0, cut={}, dropped='run natively: bounded', stubs=[])},
            bounded=dict(evaluations=n, window=f'{lo}..{hi}', exhaustive=True,
                         failures=fails))
    return run_


# ---------------------------------------------------------------------------
# end-to-end instances through the real Context.add_expr

CONTEXTS = {
    'nonneg': dict(x=(0, 6), y=(0, 2), z=(0, 15), w=(0, 15), b='bool', c='bool'),
    'signed': dict(x=(-4, 3), y=(-1, 1), z=(-20, 20), w=(-20, 20), b='bool', c='bool'),
    'allneg': dict(x=(-8, -1), y=(0, 1), z=(-3, 12), w=(-3, 12), b='bool', c='bool'),
    'narrow-dividend': dict(x=(0, 1), y=(0, 6), z=(-3, 3), w=(-3, 3), b='bool', c='bool'),
    # hints with a single value still range over their bits (0..3, 0..1, -4..-1)
    'singletons': dict(x=(3, 3), y=(0, 0), z=(-2, -2), w=(-2, -2), b='bool', c='bool'),
}

# bitfields wider than 10 bits: the bit names x_10, x_11 sort before x_2 as strings
WIDE_CONTEXT = dict(x=(0, 2047), y=(-1200, 1500), b='bool')
WIDE_FORMULAS = ['x = 4', 'x + 1 > y', 'x - y = 1030', 'y < -1024', 'x >= 1024', r'x \in 1000..2000',
                 r'b <=> (y = -1025)', 'x = y + 1200', "x' = x + 1", "y' < y"]

# registered operator definitions whose stored text needs its parentheses
DEFINITIONS = [
    ('p == (x / (y * z) = w)', r'p \/ (y * z = 0)'),
    ('p == (x - (y - z) = w)\nq == (x * (y + z) < w)', r'p /\ ~ q'),
    ('p == (w % (y + 1) = x)\nq == ~ (b => c)', r'p \/ q \/ (y + 1 = 0)'),
    ('m == x * (y * z)\np == (m = w)' if False else 'p == ((x * (y - 1)) * (z + 1) = w)', 'p <=> b'),
    ("p == ((x + y)' = z)", r'p /\ b'),
    ('p == (ite(b, x, y) - (z - 1) = w)', 'p'),
]

FORMULAS = [
    'x + y <= z - 2', 'x - y = z', 'x * y = z', 'x * y < z + 3',
    r'(y = 0) \/ (x / y = z)', r'(y = 0) \/ (x % y = z)',
    'x / 3 = y', 'x % 3 = y', 'z / -2 = x', 'z % -2 = y', '-3 < x',
    'z / 2 = x', 'z / 4 = y', 'z % 4 = y', 'z / 1 = w', 'z * 2 = w', 'z / 8 = x',
    'x # y', 'x /= y', 'x != y', 'x >= y', 'x > y', 'x <= y', 'x =< y',
    'x < y', 'x = y + 1', r'x \in 1..3', r'z \in -2..4',
    'ite(b, x, y) = z', 'ite(x < y, b, c)', 'IF b THEN x = 1 ELSE y = 1',
    r'b /\ c', r'b \/ ~ c', 'b => c', 'b <=> c', 'b ^ c', '(x = 1) ^ b',
    'b = c', 'b # c', 'TRUE', r'FALSE \/ b',
    r'\A y: x + y >= x - 1', r'\E y: x = y + y', r'\A b: b \/ c',
    r'\E x, y: x + y = z', r'\A x: \E y: (x + y) % 2 = 0',
    'LET a == x + 1 IN a > y', 'LET a == x + 1  d == a * 2 IN d > z',
    # a definition is local to its LET: sibling LETs may reuse the name, and a name that
    # shadows a declared variable means the variable again after the LET
    r'(LET a == x + 1 IN a = y) /\ (LET a == 2 IN z = a)',
    r'(LET y == x + 1 IN y = 3) /\ (y # x)',
    r'(LET a == x IN a > 0) \/ (LET a == y IN a < 0) \/ (LET a == b IN a)',
    r'/\ b /\ (x < 2) /\ c',
    '(x + y) * (z - x) <= z * 2', 'x - (y - z) = w',
    'ite(b, x + 1, y * 2) - z < 3',
]

PRIMED_DEFS = [
    ('p == (x > 1)', r"p' /\ b"), ('p == (x > 1)', 'X p'), ('p == (x + y <= z)', r"(p /\ b)'"),
    ('p == (x > 1)\nq == p \/ c', "q' <=> p"), ('p == b', "p' => p"),
]

PRIMED = [
    "LET q == x + 1 > y IN q'", r"LET q == b /\ (x = 1) IN (q' \/ q)", 
    "x' = x + 1", "b' <=> ~ b", "(x + y)' <= z'", "X b", "x' - y >= z'",
    "(IF b THEN x ELSE y)' = z", r"(\E x: x + 1 = y)'", r"(\A b: b \/ c)'",
    r"(\E x, y: x + y = z)' /\ b", "(LET a == x + 1 IN a > y)'",
]


def _prelude_other_context(fol, formula, with_ops):
    """The same formula text is first translated in an UNRELATED context (real
    manager) that declares the same identifiers with other types / ranges: no
    translation state may carry over to the context under verification."""
    import omega.symbolic.fol as _fol
    import omega.symbolic.temporal as _trl
    other = _trl.Automaton() if isinstance(fol, _trl.Automaton) else _fol.Context()
    decl = dict()
    for k, d in fol.vars.items():
        if k.endswith("'"):
            continue
        if d['type'] == 'bool':
            decl[k] = 'bool'
        else:
            lo, hi = d['dom']
            decl[k] = (0, 1) if lo < 0 else (-(hi + 9), 3)
    try:
        if isinstance(other, _trl.Automaton):
            other.declare_variables(**decl)
        else:
            other.declare(**decl)
        if with_ops:
            other.define(with_ops)
        other.add_expr(formula, with_ops=bool(with_ops))
    except Exception:
        pass      # the other context may legitimately refuse the formula


def h_formula(formula, with_ops=None, node_refs=None, primed=False):
    """One end-to-end obligation through the real pipeline (for all values)."""
    def h(ctx):
        w = ctx.w
        fol = w.aut
        ops = dict()
        if with_ops:
            fol.define(with_ops)
            for line in with_ops.strip().splitlines():
                name, body = line.split('==', 1)
                ops[name.strip()] = body.strip()
        nodes = dict()
        f = formula
        if node_refs:
            for key, sub in node_refs.items():
                u = fol.add_expr(sub)
                den0 = denote.Den(fol.vars, w.z)
                nodes[int(u)] = den0.formula(sub)
                f = f.replace(key, str(u))
        if w.symbolic and not node_refs:
            _prelude_other_context(fol, formula, with_ops)
        add = ctx.fn(type(fol).add_expr)
        try:
            u = add(fol, f, with_ops=bool(with_ops))
        except Exception as e:
            if w.symbolic:
                w.run.refusal(f'Context.add_expr accepts the documented formula: {formula}', e, False)
            else:
                w.fail(f'Context.add_expr accepts: {formula}', repr(e))
            return
        den = denote.Den(fol.vars, w.z, ops=ops, nodes=nodes)
        sem = den.formula(f)
        guards = z3.And(*den.guards) if den.guards else z3.BoolVal(True)
        w.oblige(f'spec-side arithmetic of "{formula}" does not wrap at {denote.W} bits',
                 w.valid_goal(guards), kind='pre')
        w.oblige(f'Context.add_expr("{formula}") is true exactly where the formula is true (all representable values)',
                 w.valid_goal(w.term(u) == sem))
        w.canary(f'canary: "{formula}" is the negation of its meaning',
                 w.valid_goal(w.term(u) == z3.Not(sem)))
    return h


# ---------------------------------------------------------------------------
# documented precedence and associativity (doc/doc.md, "token precedence"):
# (unparenthesised formula, its documented parenthesisation, a parenthesisation
# the table excludes).  The spec side only ever parses the fully parenthesised
# strings, which every yacc precedence table reads the same way.

PREC_CONTEXT = dict(b='bool', c='bool', d='bool', x=(0, 6), y=(0, 2), z=(-3, 3), w=(-9, 20))

PRECEDENCE = [
    ('b <=> c => d', 'b <=> (c => d)', '(b <=> c) => d'),
    ('b => c <=> d', '(b => c) <=> d', 'b => (c <=> d)'),
    ('b => c ^ d', 'b => (c ^ d)', '(b => c) ^ d'),
    ('b ^ c => d', '(b ^ c) => d', 'b ^ (c => d)'),
    (r'b ^ c \/ d', r'b ^ (c \/ d)', r'(b ^ c) \/ d'),
    (r'b \/ c ^ d', r'(b \/ c) ^ d', r'b \/ (c ^ d)'),
    (r'b \/ c /\ d', r'b \/ (c /\ d)', r'(b \/ c) /\ d'),
    (r'b /\ c \/ d', r'(b /\ c) \/ d', r'b /\ (c \/ d)'),
    (r'b <=> c \/ d', r'b <=> (c \/ d)', r'(b <=> c) \/ d'),
    (r'b /\ c => d', r'(b /\ c) => d', r'b /\ (c => d)'),
    (r'b ^ c /\ d', r'b ^ (c /\ d)', r'(b ^ c) /\ d'),
    ('b => c => d', '(b => c) => d', 'b => (c => d)'),
    (r'~ b /\ c', r'(~ b) /\ c', r'~ (b /\ c)'),
    (r'~ b \/ c', r'(~ b) \/ c', r'~ (b \/ c)'),
    ('~ b => c', '(~ b) => c', '~ (b => c)'),
    (r'b /\ x = y', r'b /\ (x = y)', None),
    (r'x = y \/ b', r'(x = y) \/ b', None),
    (r'b = c /\ d', r'(b = c) /\ d', r'b = (c /\ d)'),
    (r'b \/ c # d', r'b \/ (c # d)', r'(b \/ c) # d'),
    ('x + y < z', '(x + y) < z', None),
    ('x + y * z = w', '(x + (y * z)) = w', '((x + y) * z) = w'),
    ('x * y + z = w', '((x * y) + z) = w', '(x * (y + z)) = w'),
    ('x - y - z = w', '((x - y) - z) = w', '(x - (y - z)) = w'),
    ('x - y + z = w', '((x - y) + z) = w', '(x - (y + z)) = w'),
    ('w / 2 * 2 = z', '((w / 2) * 2) = z', '(w / (2 * 2)) = z'),
    ('w * 3 % 2 = y', '((w * 3) % 2) = y', '(w * (3 % 2)) = y'),
    ('w % 5 / 2 = y', '((w % 5) / 2) = y', '(w % (5 / 2)) = y'),
    ('w - x * y / 2 = z', '(w - ((x * y) / 2)) = z', '(((w - x) * y) / 2) = z'),
    (r'b /\ x + y < z \/ c => d', r'((b /\ ((x + y) < z)) \/ c) => d', r'b /\ (((x + y) < z) \/ (c => d))'),
    (r'\E y: y = 1 /\ x = y', r'\E y: ((y = 1) /\ (x = y))', r'(\E y: (y = 1)) /\ (x = y)'),
    (r'\A b: b \/ c => d', r'\A b: ((b \/ c) => d)', r'(\A b: (b \/ c)) => d'),
    ('b | c & d', r'b \/ (c /\ d)', r'(b \/ c) /\ d'),
    ('b -> c <-> d', '(b => c) <=> d', 'b => (c <=> d)'),
    ('! b & c', r'(~ b) /\ c', r'~ (b /\ c)'),
    ('b | c ^ d', r'(b \/ c) ^ d', r'b \/ (c ^ d)'),
]

PRECEDENCE_PRIMED = [
    ("x + y' = z", "(x + (y')) = z", "((x + y)') = z"),
    (r"b /\ c'", r"b /\ (c')", r"(b /\ c)'"),
    ("x' = y", "(x') = y", "(x = y)'"),
    (r'X b /\ c', r'(X b) /\ c', r'X (b /\ c)'),
    (r'~ X b \/ c', r'(~ (X b)) \/ c', r'~ (X (b \/ c))'),
    ("x * y' < z", "(x * (y')) < z", "((x * y)') < z"),
]


def h_precedence(plain, right, wrong):
    def h(ctx):
        w = ctx.w
        fol = w.aut
        add = ctx.fn(type(fol).add_expr)
        try:
            u = add(fol, plain)
        except Exception as e:
            if w.symbolic:
                w.run.refusal(f'Context.add_expr accepts the documented formula: {plain}', e, False)
            else:
                w.fail(f'Context.add_expr accepts: {plain}', repr(e))
            return
        den = denote.Den(fol.vars, w.z)
        sem = den.formula(right)
        guards = z3.And(*den.guards) if den.guards else z3.BoolVal(True)
        w.oblige(f'spec-side arithmetic of "{right}" does not wrap at {denote.W} bits',
                 w.valid_goal(guards), kind='pre')
        w.oblige(f'Context.add_expr("{plain}") means its documented parenthesisation "{right}" (token precedence and associativity of doc/doc.md)',
                 w.valid_goal(w.term(u) == sem))
        if wrong is not None:
            den2 = denote.Den(fol.vars, w.z)
            w.canary(f'canary: "{plain}" means "{wrong}"',
                     w.valid_goal(w.term(u) == den2.formula(wrong)))
        else:
            w.canary(f'canary: "{plain}" is the negation of its meaning',
                     w.valid_goal(w.term(u) == z3.Not(sem)))
    return h


def h_two_contexts(defs1, defs2, formula):
    """Operator definitions belong to the context that registered them: two
    contexts in one process may give the same operator name different bodies."""
    def h(ctx):
        w = ctx.w
        fol = w.aut
        import omega.symbolic.fol as _fol
        from ovc import specbdd
        # an unrelated context used BEFORE, with the same names and other bodies
        other = type(fol)()
        other.bdd = specbdd.SpecBDD() if w.symbolic else type(fol.bdd)()
        decl = {k: (v['dom'] if v['type'] != 'bool' else 'bool') for k, v in fol.vars.items()
                if not k.endswith("'")}
        if hasattr(other, 'declare_variables') and any(k.endswith("'") for k in fol.vars):
            other.declare_variables(**decl)
        else:
            other.declare(**decl)
        other.define(defs1)
        other.add_expr(formula, with_ops=True)
        ops = dict()
        fol.define(defs2)
        for line in defs2.strip().splitlines():
            name, body = line.split('==', 1)
            ops[name.strip()] = body.strip()
        add = ctx.fn(type(fol).add_expr)
        u = add(fol, formula, with_ops=True)
        den = denote.Den(fol.vars, w.z, ops=ops)
        sem = den.formula(formula)
        w.oblige(f'Context.add_expr("{formula}") uses the definitions registered in THIS context (another context defined the same names differently before)',
                 w.valid_goal(w.term(u) == sem))
        ops1 = dict()
        for line in defs1.strip().splitlines():
            name, body = line.split('==', 1)
            ops1[name.strip()] = body.strip()
        w.canary('canary: both definitions mean the same', w.valid_goal(
            w.term(u) == denote.Den(fol.vars, w.z, ops=ops1).formula(formula)))
    return h


def real_manager_formulas(cname, backend, primed=False, samples=60, seed=0, decl=None, formulas=None):
    """BOUNDED: the end-to-end formulas through the real pipeline on a REAL dd
    manager (the proofs above run on the abstract manager): acceptance, and the
    meaning at `samples` random assignments of the declared bits (plus the
    all-false and all-true assignments)."""
    def run():
        import random
        import omega.symbolic.fol as _fol
        import omega.symbolic.temporal as _trl
        rnd = random.Random(seed)
        fails = list()
        n = 0
        if formulas is not None:
            todo = [(f, None) for f in formulas]
        else:
            todo = [(f, None) for f in (PRIMED if primed else FORMULAS)]
            if not primed:
                todo += [(f, ops) for ops, f in DEFINITIONS if "'" not in ops]
        for fml, ops in todo:
            c = _trl.Automaton() if primed else _fol.Context()
            if backend == 'autoref':
                import dd.autoref as autoref
                c.bdd = autoref.BDD()
            decl_ = decl if decl is not None else CONTEXTS[cname]
            if primed:
                c.declare_variables(**decl_)
            else:
                c.declare(**decl_)
            opsd = dict()
            try:
                if ops:
                    c.define(ops)
                    for line in ops.strip().splitlines():
                        nm, body = line.split('==', 1)
                        opsd[nm.strip()] = body.strip()
                if ops or len(fml) % 3 == 0:
                    u = c.add_expr(fml, with_ops=bool(ops))
                elif len(fml) % 3 == 1:
                    u = c.to_bdd(fml)                # documented synonym
                else:
                    (u,) = c.bdds_from(fml)          # documented: one BDD per formula
            except Exception as e:
                if len(fails) < 6:
                    fails.append(dict(name=f'Context.add_expr accepts the documented formula on the real manager: {fml}',
                                      error=repr(e)[:200], backend=backend, context=cname))
                continue
            bits = sorted(c.bdd.vars)
            zb = {b: z3.Bool(b) for b in bits}
            den = denote.Den(c.vars, lambda b: zb[b], ops=opsd)
            sem = den.formula(fml)
            guards = z3.And(*den.guards) if den.guards else z3.BoolVal(True)
            pts = [dict.fromkeys(bits, False), dict.fromkeys(bits, True)]
            pts += [{b: rnd.random() < 0.5 for b in bits} for _ in range(samples)]
            for pt in pts:
                n += 1
                sub = [(zb[b], z3.BoolVal(v)) for b, v in pt.items()]
                if not z3.is_true(z3.simplify(z3.substitute(guards, *sub))):
                    continue
                want = z3.simplify(z3.substitute(sem, *sub))
                got = c.bdd.let(pt, u)
                if not (z3.is_true(want) or z3.is_false(want)):
                    continue
                if (got == c.bdd.true) != z3.is_true(want):
                    if len(fails) < 6:
                        fails.append(dict(name=f'Context.add_expr("{fml}") on the real manager is true exactly where the formula is true',
                                          bits={b: int(v) for b, v in pt.items() if b in c.bdd.support(u)},
                                          backend=backend, context=cname))
                    break
        return dict(records=[], stats=dict(), functions={}, bounded=dict(
            evaluations=n, context=cname, backend=backend or 'default', samples_per_formula=samples + 2, failures=fails[:6]))
    return run


# unparenthesised formulas over the variables of CONTEXTS (real-manager run)
PRECEDENCE_REAL = [(a, b, c) for a, b, c in PRECEDENCE if not any(v in a for v in ('d', 'w /', 'w *', 'w %', 'w -'))][:0]
