"""BOUNDED: no behaviour may hang on the side effect of an `assert` (they are
stripped under `python -O` / PYTHONOPTIMIZE).  A fixed script of library calls
(contracts/drivers/optimize_diff.py, one section per property) is run in two
fresh interpreters, with and without `-O`; the printed results must be
identical.  The normal-mode results themselves are checked by the other
families of the property."""
import json
import os
import subprocess
import sys


def family(section):
    def run():
        from ovc import run as _run
        drv = os.path.join(os.path.dirname(os.path.abspath(__file__)), 'drivers', 'optimize_diff.py')
        outs = list()
        for flags in ([], ['-O']):
            env = dict(os.environ)
            env.pop('PYTHONOPTIMIZE', None)
            p = subprocess.run([sys.executable] + flags + [drv, os.path.abspath(_run.REPO), section],
                               capture_output=True, text=True, timeout=900, env=env)
            line = [x for x in p.stdout.splitlines() if x.startswith('{')]
            outs.append((p.returncode, line[-1] if line else None, p.stderr[-400:]))
        fails = list()
        (rc0, a, e0), (rc1, b, e1) = outs
        if rc0 != 0 or a is None:
            raise RuntimeError(f'optimize_diff driver failed in normal mode: {e0}')
        if rc1 != 0 or b is None:
            fails.append(dict(name='the library behaves the same when assert statements are stripped (python -O)',
                              section=section, error=e1[-300:]))
        elif a != b:
            ra, rb = json.loads(a)[section], json.loads(b)[section]
            first = next((i for i, (x, y) in enumerate(zip(ra, rb)) if x != y), None)
            fails.append(dict(name='the library behaves the same when assert statements are stripped (python -O)',
                              section=section, first_difference=first,
                              normal=json.dumps(ra[first])[:300] if first is not None else None,
                              optimized=json.dumps(rb[first])[:300] if first is not None else None))
        return dict(records=[], stats=dict(), functions={}, bounded=dict(evaluations=2, section=section, failures=fails))
    return run
