"""Path exploration by re-execution, obligations, discharge.

A *run* executes a harness (which calls the real `omega` code on symbolic
proxies) once along one path.  A symbolic truth value that reaches a Python
branch (`SymBool.__bool__`) is decided by the solver if the facts so far force
it; otherwise the run forks: the harness is re-executed from the start with a
decision prefix (depth first) until the path tree is exhausted.
"""
import os
import subprocess
import tempfile
import time

import z3


QUERY_TIMEOUT_MS = int(os.environ.get('OVC_QUERY_TIMEOUT_MS', '30000'))
DECIDE_TIMEOUT_MS = int(os.environ.get('OVC_DECIDE_TIMEOUT_MS', '5000'))
MAX_PATHS = int(os.environ.get('OVC_MAX_PATHS', '400'))


class OutOfReach(Exception):
    """The proxy cannot give CPython the concrete value it asks for."""


class EndOfPath(Exception):
    """Raised at a cut back edge: the path ends here."""


class PathBudget(Exception):
    pass


class Unsupported(Exception):
    """Source no longer matches the sidecar (loop ordinals, stored names)."""


_current = None


def current():
    if _current is None:
        raise OutOfReach('symbolic value used outside a run')
    return _current


class SymBool:
    """Symbolic truth value; deciding it may fork the run."""

    __slots__ = ('t',)

    def __init__(self, t):
        self.t = t

    def __bool__(self):
        return current().decide(self.t)

    def __invert__(self):
        return SymBool(z3.Not(self.t))

    def __and__(self, o):
        return SymBool(z3.And(self.t, _bt(o)))

    __rand__ = __and__

    def __or__(self, o):
        return SymBool(z3.Or(self.t, _bt(o)))

    __ror__ = __or__

    def __eq__(self, o):
        return SymBool(self.t == _bt(o))

    def __ne__(self, o):
        return SymBool(self.t != _bt(o))

    def __hash__(self):
        return self.t.get_id()

    def __repr__(self):
        return f'SymBool({self.t})'


def _bt(o):
    if isinstance(o, SymBool):
        return o.t
    if isinstance(o, bool):
        return z3.BoolVal(o)
    if z3.is_bool(o):
        return o
    raise TypeError(o)


def concretize_bool(v):
    if isinstance(v, SymBool):
        return bool(v)
    if isinstance(v, (bool, int)):
        return bool(v)
    raise OutOfReach(f'cannot use {v!r} as a Boolean value')


# ----------------------------------------------------------------------------
# solver access

def _solver(timeout_ms):
    s = z3.Solver()
    s.set('timeout', timeout_ms)
    return s


def check_sat(formulas, timeout_ms=None):
    """Return ('sat'|'unsat'|'unknown', model|None, seconds, backend)."""
    if timeout_ms is None:
        timeout_ms = QUERY_TIMEOUT_MS
    t0 = time.time()
    s = _solver(timeout_ms)
    for f in formulas:
        s.add(f)
    r = s.check()
    dt = time.time() - t0
    if r == z3.sat:
        return 'sat', s.model(), dt, 'z3-5.1(py)'
    if r == z3.unsat:
        return 'unsat', None, dt, 'z3-5.1(py)'
    # retry with the other installed solvers on the exported query
    smt = s.to_smt2()
    for name, cmd in (
            ('z3-4.8.12', ['/usr/bin/z3', '-smt2', f'-T:{max(1, timeout_ms // 1000)}']),
            ('cvc5-1.0.3', ['/usr/bin/cvc5', '--lang=smt2',
                            f'--tlimit={timeout_ms}', '--finite-model-find'])):
        try:
            with tempfile.NamedTemporaryFile(
                    'w', suffix='.smt2', delete=False) as f:
                f.write(smt)
                path = f.name
            out = subprocess.run(
                cmd + [path], capture_output=True, text=True,
                timeout=timeout_ms / 1000 + 5).stdout.strip().splitlines()
        except Exception:
            out = []
        finally:
            try:
                os.unlink(path)
            except OSError:
                pass
        head = out[0].strip() if out else ''
        if head == 'unsat':
            return 'unsat', None, time.time() - t0, name
        if head == 'sat':
            # no model object from the external solver; report as sat w/o model
            return 'sat', None, time.time() - t0, name
    return 'unknown', None, time.time() - t0, 'none'


# ----------------------------------------------------------------------------
# runs

class Run:
    def __init__(self, prefix=()):
        self.prefix = list(prefix)
        self.trace = list()      # (value, forced) per non-trivial decision
        self.facts = list()      # path condition and assumed contract facts
        self.results = list()    # obligation records
        self.notes = list()
        self._sat_cache = dict()
        self.solver_s = 0.0

    # -- facts
    def assume(self, t, why=''):
        if isinstance(t, SymBool):
            t = t.t
        if isinstance(t, bool):
            t = z3.BoolVal(t)
        self.facts.append(t)

    # -- branching
    def decide(self, t):
        t = z3.simplify(t)
        if z3.is_true(t):
            return True
        if z3.is_false(t):
            return False
        i = len(self.trace)
        if i < len(self.prefix):
            v = self.prefix[i]
            self.trace.append((v, True))
        else:
            r1, _, d1, _ = check_sat(self.facts + [t], DECIDE_TIMEOUT_MS)
            self.solver_s += d1
            if r1 == 'unsat':
                v, forced = False, True
            else:
                r0, _, d0, _ = check_sat(
                    self.facts + [z3.Not(t)], DECIDE_TIMEOUT_MS)
                self.solver_s += d0
                if r0 == 'unsat':
                    v, forced = True, True
                else:
                    v, forced = True, False
            self.trace.append((v, forced))
        self.facts.append(t if v else z3.Not(t))
        return v

    def feasible(self):
        """Is the conjunction of the facts satisfiable? ('sat'/'unsat'/'unknown')"""
        k = len(self.facts)
        if k not in self._sat_cache:
            r, _, dt, _ = check_sat(list(self.facts), QUERY_TIMEOUT_MS)
            self.solver_s += dt
            self._sat_cache[k] = r
        return self._sat_cache[k]

    # -- obligations
    def oblige(self, name, goal, kind='post', replay=None, extra=(), hint=None):
        """Prove `facts /\\ extra => goal`."""
        if isinstance(goal, SymBool):
            goal = goal.t
        if isinstance(goal, bool):
            goal = z3.BoolVal(goal)
        assumptions = list(self.facts) + list(extra)
        r, model, dt, backend = check_sat(assumptions + [z3.Not(goal)])
        self.solver_s += dt
        rec = dict(name=name, kind=kind, seconds=round(dt, 4),
                   backend=backend, n_assumptions=len(assumptions),
                   path=[v for v, _ in self.trace])
        if r == 'unsat':
            rec['status'] = 'discharged'
            f = self.feasible()
            rec['assumptions_sat'] = f
        elif r == 'sat':
            rec['status'] = 'refuted'
            rec['goal'] = _short(goal)
            if model is not None:
                rec['model'] = _model_text(model)
                if replay is not None:
                    try:
                        rec['replay'] = replay(model)
                    except Exception as e:  # replay must never crash the check
                        rec['replay'] = dict(
                            outcome='replay-error', error=repr(e))
            else:
                rec['model'] = None
        else:
            rec['status'] = 'undecided'
            rec['goal'] = _short(goal)
        if hint:
            rec['hint'] = hint
        self.results.append(rec)
        return rec

    def canary(self, name, goal, extra=()):
        """A deliberately wrong goal: must be refuted (guards vacuity)."""
        if isinstance(goal, SymBool):
            goal = goal.t
        assumptions = list(self.facts) + list(extra)
        r, _, dt, backend = check_sat(assumptions + [z3.Not(goal)])
        self.solver_s += dt
        rec = dict(name=name, kind='canary', seconds=round(dt, 4),
                   backend=backend, n_assumptions=len(assumptions),
                   path=[v for v, _ in self.trace])
        rec['status'] = {'sat': 'canary-refuted', 'unsat': 'canary-proved',
                         'unknown': 'canary-unknown'}[r]
        self.results.append(rec)
        return rec

    def refusal(self, name, exc, allowed):
        """The real code raised on this path.

        `allowed` says whether the contract's `raises` clause admits it;
        if not, the path must be infeasible.
        """
        rec = dict(name=name, kind='raises', exception=repr(exc)[:300],
                   path=[v for v, _ in self.trace], seconds=0.0,
                   backend='-', n_assumptions=len(self.facts))
        if allowed:
            rec['status'] = 'refusal-allowed'
            self.results.append(rec)
            return rec
        r, model, dt, backend = check_sat(list(self.facts))
        self.solver_s += dt
        rec['seconds'] = round(dt, 4)
        rec['backend'] = backend
        if r == 'unsat':
            rec['status'] = 'discharged'
            rec['assumptions_sat'] = 'unsat(path infeasible, as required)'
        elif r == 'sat':
            rec['status'] = 'refuted'
            rec['goal'] = 'path on which the real code raises is infeasible'
            rec['model'] = _model_text(model) if model is not None else None
            rec['_model_obj'] = model
        else:
            rec['status'] = 'undecided'
        self.results.append(rec)
        return rec


def _short(t, n=600):
    s = str(t)
    return s if len(s) <= n else s[:n] + ' ...'


def _model_text(m, n=3000):
    try:
        s = m.sexpr()
    except Exception:
        s = str(m)
    return s if len(s) <= n else s[:n] + ' ...'


def explore(harness, max_paths=None):
    """Run `harness(run)` along every path.  Return (records, stats)."""
    global _current
    if max_paths is None:
        max_paths = MAX_PATHS
    stack = [[]]
    records = list()
    npaths = 0
    solver_s = 0.0
    while stack:
        prefix = stack.pop()
        npaths += 1
        if npaths > max_paths:
            raise PathBudget(f'more than {max_paths} paths')
        run = Run(prefix)
        prev = _current
        _current = run
        try:
            try:
                harness(run)
            except EndOfPath:
                pass
        finally:
            _current = prev
        solver_s += run.solver_s
        for i in range(len(prefix), len(run.trace)):
            v, forced = run.trace[i]
            if not forced:
                stack.append([x for x, _ in run.trace[:i]] + [not v])
        for rec in run.results:
            rec.pop('_model_obj', None)
            records.append(rec)
    return records, dict(paths=npaths, solver_s=round(solver_s, 3))
