"""Path exploration by re-execution, obligations, discharge.

A *run* executes a harness (which calls the real `omega` code on symbolic
proxies) once along one path.  A symbolic truth value that reaches a Python
branch (`SymBool.__bool__`) is decided by the solver if the facts so far force
it; otherwise the run forks: the harness is re-executed from the start with a
decision prefix (depth first) until the path tree is exhausted.
"""
import os
import subprocess
import tempfile
import time

import z3


QUERY_TIMEOUT_MS = int(os.environ.get('OVC_QUERY_TIMEOUT_MS', '30000'))
DECIDE_TIMEOUT_MS = int(os.environ.get('OVC_DECIDE_TIMEOUT_MS', '5000'))
MAX_PATHS = int(os.environ.get('OVC_MAX_PATHS', '400'))


class OutOfReach(Exception):
    """The proxy cannot give CPython the concrete value it asks for."""


class EndOfPath(Exception):
    """Raised at a cut back edge: the path ends here."""


class PathBudget(Exception):
    pass


class Unsupported(Exception):
    """Source no longer matches the sidecar (loop ordinals, stored names)."""


_current = None


def current():
    if _current is None:
        raise OutOfReach('symbolic value used outside a run')
    return _current


class SymBool:
    """Symbolic truth value; deciding it may fork the run."""

    __slots__ = ('t',)

    def __init__(self, t):
        self.t = t

    def __bool__(self):
        return current().decide(self.t)

    def __invert__(self):
        return SymBool(z3.Not(self.t))

    def __and__(self, o):
        return SymBool(z3.And(self.t, _bt(o)))

    __rand__ = __and__

    def __or__(self, o):
        return SymBool(z3.Or(self.t, _bt(o)))

    __ror__ = __or__

    def __eq__(self, o):
        return SymBool(self.t == _bt(o))

    def __ne__(self, o):
        return SymBool(self.t != _bt(o))

    def __hash__(self):
        return self.t.get_id()

    def __repr__(self):
        return f'SymBool({self.t})'


def _bt(o):
    if isinstance(o, SymBool):
        return o.t
    if isinstance(o, bool):
        return z3.BoolVal(o)
    if z3.is_bool(o):
        return o
    raise TypeError(o)


def concretize_bool(v):
    if isinstance(v, SymBool):
        return bool(v)
    if isinstance(v, (bool, int)):
        return bool(v)
    raise OutOfReach(f'cannot use {v!r} as a Boolean value')


# ----------------------------------------------------------------------------
# solver access

def _solver(timeout_ms):
    s = z3.Solver()
    s.set('timeout', timeout_ms)
    return s


_GROUND = dict(status=dict(), apps=dict(), keep=list())


class _Raw:
    """The ctypes entry points behind z3core's wrappers (without the per-call
    error check): read-only AST inspection only."""

    def __getattr__(self, name):
        f = getattr(z3.z3core, name).__defaults__[-1].f
        setattr(self, name, f)
        return f


_RAW = _Raw()


def reset_ground_cache():
    _GROUND['status'].clear()
    _GROUND['apps'].clear()
    del _GROUND['keep'][:]


def _ground_atoms(formulas):
    """If every application of an uninterpreted function in `formulas` has only
    the literals true/false as arguments, return [(application, fresh atom)].

    Distinct argument tuples of an uninterpreted function are independent, so
    replacing each such application by its own propositional atom gives an
    equisatisfiable formula (and a model of one translates into a model of the
    other; `_check_ground` re-checks every model against the original
    formulas).  Returns None when some application has a non-literal argument.
    The scan is cached per process over hash-consed sub-terms (the scanned
    formulas are kept alive, so identifiers stay valid); the returned list may
    mention applications of earlier queries, which is harmless.
    """
    lib = _RAW
    c = z3.main_ctx().ref()
    status, apps = _GROUND['status'], _GROUND['apps']
    _GROUND['keep'].extend(formulas)
    UNINT, TRUE, FALSE = z3.Z3_OP_UNINTERPRETED, z3.Z3_OP_TRUE, z3.Z3_OP_FALSE
    ok = True
    for f in formulas:
        root = f.as_ast()
        rid = lib.Z3_get_ast_id(c, root)
        if rid in status:
            ok = ok and status[rid]
            continue
        stack = [(root, rid, None)]
        while stack:
            a, i, kids = stack.pop()
            if kids is not None:
                status[i] = all(status[k] for k in kids)
                continue
            if i in status:
                continue
            kind = lib.Z3_get_ast_kind(c, a)
            if kind == z3.Z3_NUMERAL_AST:
                status[i] = True
                continue
            if kind != z3.Z3_APP_AST:
                status[i] = False      # quantifier or bound variable
                continue
            app = lib.Z3_to_app(c, a)
            n = lib.Z3_get_app_num_args(c, app)
            dk = lib.Z3_get_decl_kind(c, lib.Z3_get_app_decl(c, app))
            if dk == UNINT and n > 0:
                good = True
                for k in range(n):
                    x = lib.Z3_get_app_arg(c, app, k)
                    if lib.Z3_get_ast_kind(c, x) != z3.Z3_APP_AST:
                        good = False
                        break
                    xk = lib.Z3_get_decl_kind(c, lib.Z3_get_app_decl(c, lib.Z3_to_app(c, x)))
                    if xk != TRUE and xk != FALSE:
                        good = False
                        break
                if good:
                    e = z3.z3._to_expr_ref(a, z3.main_ctx())
                    good = z3.is_bool(e)
                    if good:
                        apps[i] = (e, z3.Bool(f'ga!{len(apps)}'))
                status[i] = good
                continue
            kids = list()
            todo = list()
            for k in range(n):
                x = lib.Z3_get_app_arg(c, app, k)
                xi = lib.Z3_get_ast_id(c, x)
                kids.append(xi)
                if xi not in status:
                    todo.append((x, xi, None))
            stack.append((a, i, kids))
            stack.extend(todo)
        ok = ok and status[rid]
    if not ok or len(apps) < 64:
        return None
    return list(apps.values())


def _check_ground(formulas, sub, timeout_ms):
    """Decide `formulas` through the propositional abstraction `sub`."""
    s = _solver(timeout_ms)
    s.add(z3.substitute(z3.And(*formulas), *sub))
    r = s.check()
    if r == z3.unsat:
        return 'unsat', None
    if r != z3.sat:
        return 'unknown', None
    # translate the model back: fix the value of every application and let the
    # solver complete it over the original vocabulary (unit propagation)
    m = s.model()
    s2 = _solver(timeout_ms)
    for f in formulas:
        s2.add(f)
    for e, a in sub:
        s2.add(e == z3.BoolVal(z3.is_true(m.eval(a, model_completion=True))))
    if s2.check() == z3.sat:
        return 'sat', s2.model()
    return 'unknown', None


def check_sat(formulas, timeout_ms=None):
    """Return ('sat'|'unsat'|'unknown', model|None, seconds, backend)."""
    if timeout_ms is None:
        timeout_ms = QUERY_TIMEOUT_MS
    t0 = time.time()
    formulas = [f.t if isinstance(f, SymBool) else f for f in formulas]
    if not os.environ.get('OVC_NO_GROUND_ATOMS'):
        try:
            sub = _ground_atoms([f for f in formulas if z3.is_expr(f)])
        except Exception:
            sub = None
        if sub and all(z3.is_expr(f) for f in formulas):
            st, model = _check_ground(formulas, sub, timeout_ms)
            if st != 'unknown':
                return st, model, time.time() - t0, 'z3-5.1(py), ground applications as atoms'
    s = _solver(timeout_ms)
    for f in formulas:
        s.add(f)
    r = s.check()
    dt = time.time() - t0
    if r == z3.sat:
        return 'sat', s.model(), dt, 'z3-5.1(py)'
    if r == z3.unsat:
        return 'unsat', None, dt, 'z3-5.1(py)'
    # retry with the other installed solvers on the exported query
    smt = s.to_smt2()
    if os.environ.get('OVC_DUMP_UNKNOWN'):     # development aid
        with open(os.path.join(os.environ['OVC_DUMP_UNKNOWN'], f'q{os.getpid()}_{int(t0 * 1000) % 10**8}.smt2'), 'w') as f_:
            f_.write(smt)
    for name, cmd in (
            ('z3-4.8.12', ['/usr/bin/z3', '-smt2', f'-T:{max(1, timeout_ms // 1000)}']),
            ('cvc5-1.0.3', ['/usr/bin/cvc5', '--lang=smt2',
                            f'--tlimit={timeout_ms}', '--finite-model-find'])):
        try:
            with tempfile.NamedTemporaryFile(
                    'w', suffix='.smt2', delete=False) as f:
                f.write(smt)
                path = f.name
            out = subprocess.run(
                cmd + [path], capture_output=True, text=True,
                timeout=timeout_ms / 1000 + 5).stdout.strip().splitlines()
        except Exception:
            out = []
        finally:
            try:
                os.unlink(path)
            except OSError:
                pass
        head = out[0].strip() if out else ''
        if head == 'unsat':
            return 'unsat', None, time.time() - t0, name
        if head == 'sat':
            # no model object from the external solver; report as sat w/o model
            return 'sat', None, time.time() - t0, name
    return 'unknown', None, time.time() - t0, 'none'


# ----------------------------------------------------------------------------
# runs

class Run:
    def __init__(self, prefix=()):
        self.prefix = list(prefix)
        self.trace = list()      # (value, forced) per non-trivial decision
        self.facts = list()      # path condition and assumed contract facts
        self.results = list()    # obligation records
        self.notes = list()
        self._sat_cache = dict()
        self.solver_s = 0.0

    # -- facts
    def assume(self, t, why=''):
        if isinstance(t, SymBool):
            t = t.t
        if isinstance(t, bool):
            t = z3.BoolVal(t)
        self.facts.append(t)

    # -- branching
    def decide(self, t):
        t = z3.simplify(t)
        if z3.is_true(t):
            return True
        if z3.is_false(t):
            return False
        i = len(self.trace)
        if i < len(self.prefix):
            v = self.prefix[i]
            self.trace.append((v, True))
        else:
            r1, _, d1, _ = check_sat(self.facts + [t], DECIDE_TIMEOUT_MS)
            self.solver_s += d1
            if r1 == 'unsat':
                v, forced = False, True
            else:
                r0, _, d0, _ = check_sat(
                    self.facts + [z3.Not(t)], DECIDE_TIMEOUT_MS)
                self.solver_s += d0
                if r0 == 'unsat':
                    v, forced = True, True
                else:
                    v, forced = True, False
            self.trace.append((v, forced))
        self.facts.append(t if v else z3.Not(t))
        return v

    def feasible(self):
        """Is the conjunction of the facts satisfiable? ('sat'/'unsat'/'unknown')"""
        k = len(self.facts)
        if k not in self._sat_cache:
            r, _, dt, _ = check_sat(list(self.facts), QUERY_TIMEOUT_MS)
            self.solver_s += dt
            self._sat_cache[k] = r
        return self._sat_cache[k]

    # -- obligations
    def oblige(self, name, goal, kind='post', replay=None, extra=(), hint=None):
        """Prove `facts /\\ extra => goal`."""
        if isinstance(goal, SymBool):
            goal = goal.t
        if isinstance(goal, bool):
            goal = z3.BoolVal(goal)
        assumptions = list(self.facts) + list(extra)
        r, model, dt, backend = check_sat(assumptions + [z3.Not(goal)])
        self.solver_s += dt
        rec = dict(name=name, kind=kind, seconds=round(dt, 4),
                   backend=backend, n_assumptions=len(assumptions),
                   path=[v for v, _ in self.trace])
        if r == 'unsat':
            rec['status'] = 'discharged'
            f = self.feasible()
            rec['assumptions_sat'] = f
        elif r == 'sat':
            rec['status'] = 'refuted'
            rec['goal'] = _short(goal)
            if model is not None:
                rec['model'] = _model_text(model)
                if replay is not None:
                    try:
                        rec['replay'] = replay(model)
                    except Exception as e:  # replay must never crash the check
                        rec['replay'] = dict(
                            outcome='replay-error', error=repr(e))
            else:
                rec['model'] = None
        else:
            rec['status'] = 'undecided'
            rec['goal'] = _short(goal)
        if hint:
            rec['hint'] = hint
        self.results.append(rec)
        return rec

    def canary(self, name, goal, extra=()):
        """A deliberately wrong goal: must be refuted (guards vacuity)."""
        if isinstance(goal, SymBool):
            goal = goal.t
        assumptions = list(self.facts) + list(extra)
        r, _, dt, backend = check_sat(assumptions + [z3.Not(goal)])
        self.solver_s += dt
        rec = dict(name=name, kind='canary', seconds=round(dt, 4),
                   backend=backend, n_assumptions=len(assumptions),
                   path=[v for v, _ in self.trace])
        rec['status'] = {'sat': 'canary-refuted', 'unsat': 'canary-proved',
                         'unknown': 'canary-unknown'}[r]
        self.results.append(rec)
        return rec

    def refusal(self, name, exc, allowed):
        """The real code raised on this path.

        `allowed` says whether the contract's `raises` clause admits it;
        if not, the path must be infeasible.
        """
        rec = dict(name=name, kind='raises', exception=repr(exc)[:300],
                   path=[v for v, _ in self.trace], seconds=0.0,
                   backend='-', n_assumptions=len(self.facts))
        if allowed:
            rec['status'] = 'refusal-allowed'
            self.results.append(rec)
            return rec
        r, model, dt, backend = check_sat(list(self.facts))
        self.solver_s += dt
        rec['seconds'] = round(dt, 4)
        rec['backend'] = backend
        if r == 'unsat':
            rec['status'] = 'discharged'
            rec['assumptions_sat'] = 'unsat(path infeasible, as required)'
        elif r == 'sat':
            rec['status'] = 'refuted'
            rec['goal'] = 'path on which the real code raises is infeasible'
            rec['model'] = _model_text(model) if model is not None else None
            rec['_model_obj'] = model
        else:
            rec['status'] = 'undecided'
        self.results.append(rec)
        return rec


def _short(t, n=600):
    s = str(t)
    return s if len(s) <= n else s[:n] + ' ...'


def _model_text(m, n=3000):
    try:
        s = m.sexpr()
    except Exception:
        s = str(m)
    return s if len(s) <= n else s[:n] + ' ...'


def explore(harness, max_paths=None):
    """Run `harness(run)` along every path.  Return (records, stats)."""
    global _current
    if max_paths is None:
        max_paths = MAX_PATHS
    stack = [[]]
    records = list()
    npaths = 0
    solver_s = 0.0
    while stack:
        prefix = stack.pop()
        npaths += 1
        if npaths > max_paths:
            raise PathBudget(f'more than {max_paths} paths')
        run = Run(prefix)
        prev = _current
        _current = run
        try:
            try:
                harness(run)
            except EndOfPath:
                pass
        finally:
            _current = prev
        solver_s += run.solver_s
        for i in range(len(prefix), len(run.trace)):
            v, forced = run.trace[i]
            if not forced:
                stack.append([x for x, _ in run.trace[:i]] + [not v])
        for rec in run.results:
            rec.pop('_model_obj', None)
            records.append(rec)
    return records, dict(paths=npaths, solver_s=round(solver_s, 3))
