"""Denotation of `omega` formulas: independent integer / Boolean semantics.

A formula string is parsed with the REAL parser (`omega.logic.lexyacc.Parser`,
default AST nodes) and the tree is evaluated here into z3 terms:
integers are bit-vectors of a width `W` large enough that no operation of the
checked formulas can wrap (checked: every arithmetic result is asserted to fit,
see `Den.guards`), division / remainder are C99 truncation (`bvsdiv`/`bvsrem`),
primed identifiers denote the primed copy, quantifiers range over exactly the
representable values of the variable.

This evaluator is SPECIFICATION (about 150 lines), written from doc/doc.md and
the statement of C06; it shares no code with `omega.logic.bitvector`.
"""
import z3

W = 48


class Den:
    def __init__(self, table, bit, ops=None, nodes=None):
        """`table`: omega symbol table (bitblasted); `bit(name)` -> z3 Bool of
        a bit; `ops`: operator definitions name -> formula string."""
        import omega.logic.lexyacc as lexyacc
        self.parser = _parser(lexyacc)
        self.t = table
        self.bit = bit
        self.ops = dict(ops or {})
        self.nodes = nodes or {}     # BDD-reference number -> z3 Bool
        self.guards = list()         # side conditions: no wrap, divisor # 0

    # ---- values of variables
    def var_int(self, name, primed=False):
        d = self.t[name]
        bits = [self.bit(b + ("'" if primed else '')) for b in d['bitnames']]
        n = len(bits)
        lo, hi = d['dom']
        if d['signed']:
            return z3.SignExt(W - n, _bv(bits))
        if lo >= 0:
            return z3.ZeroExt(W - n, _bv(bits))
        # all-negative hint: constant sign bit 1
        return z3.Concat(z3.BitVecVal(-1, W - n), _bv(bits))

    def limits(self, name):
        d = self.t[name]
        n = d['width']
        lo, hi = d['dom']
        if d['signed']:
            return -2 ** (n - 1), 2 ** (n - 1) - 1
        if lo >= 0:
            return 0, 2 ** n - 1
        return -2 ** n, -1

    # ---- evaluation
    def formula(self, s):
        tree = self.parser.parse(s)
        r = self.ev(tree, dict(), False)
        assert z3.is_bool(r), s
        return r

    def ev(self, u, env, primed):
        """env: local bindings name -> value (quantifiers, LET)."""
        typ = type(u).__name__
        if typ == 'Bool':
            return z3.BoolVal(u.value.lower() == 'true')
        if typ == 'Num':
            return z3.BitVecVal(int(u.value), W)
        if typ == 'Var':
            name = u.value
            if name in env:
                v = env[name]
                if callable(v):
                    return v(primed)
                return v
            if name in self.ops:
                tree = self.parser.parse(self.ops[name])
                return self.ev(tree, dict(), primed)
            if name not in self.t:
                raise KeyError(name)
            if self.t[name]['type'] == 'bool':
                return self.bit(name + ("'" if primed else ''))
            return self.var_int(name, primed)
        op = u.operator
        xs = u.operands
        if typ == 'Unary':
            if op == '~':
                return z3.Not(self.ev(xs[0], env, primed))
            if op in ('X', "'"):
                return self.ev(xs[0], env, True)
            raise NotImplementedError(op)
        if typ == 'Arithmetic':
            a = self.ev(xs[0], env, primed)
            b = self.ev(xs[1], env, primed)
            if op == '+':
                r = a + b
                self.guards.append(z3.Not(z3.Or(
                    z3.And(a >= 0, b >= 0, r < 0), z3.And(a < 0, b < 0, r >= 0))))
                return r
            if op == '-':
                r = a - b
                self.guards.append(z3.Not(z3.Or(
                    z3.And(a >= 0, b < 0, r < 0), z3.And(a < 0, b >= 0, r >= 0))))
                return r
            if op == '*':
                big = 2 ** (W // 2 - 1)
                self.guards.append(z3.And(a < big, a > -big, b < big, b > -big))
                return a * b
            if op == '/':
                return z3.If(b == 0, z3.BitVec(f'div0!{len(self.guards)}', W),
                             _sdiv(a, b))
            if op == '%':
                return z3.If(b == 0, z3.BitVec(f'mod0!{len(self.guards)}', W),
                             z3.SRem(a, b))
            raise NotImplementedError(op)
        if typ == 'Comparator':
            a = self.ev(xs[0], env, primed)
            b = self.ev(xs[1], env, primed)
            if op == '=':
                return a == b
            if op in ('#', '/=', '!='):
                return a != b
            return {'<': a < b, '<=': a <= b, '=<': a <= b,
                    '>': a > b, '>=': a >= b}[op]
        if typ == 'Binary':
            if op == r'\in':
                e = self.ev(xs[0], env, primed)
                rng = xs[1]
                assert rng.operator == '..'
                lo = self.ev(rng.operands[0], env, primed)
                hi = self.ev(rng.operands[1], env, primed)
                return z3.And(lo <= e, e <= hi)
            a = self.ev(xs[0], env, primed)
            b = self.ev(xs[1], env, primed)
            return {'/\\': z3.And(a, b), r'\/': z3.Or(a, b),
                    '=>': z3.Implies(a, b), '<=>': a == b,
                    '^': z3.Xor(a, b)}[op]
        if typ == 'Operator':
            if op == 'ite':
                g = self.ev(xs[0], env, primed)
                return z3.If(g, self.ev(xs[1], env, primed),
                             self.ev(xs[2], env, primed))
            if op in (r'\A', r'\E'):
                params, body = xs
                names = [v.value for v in params.operands]
                return self._quant(op, names, body, env, primed)
            if op == 'LET':
                defs, body = xs
                env2 = dict(env)
                for d in defs:
                    name = d.operands[0].value
                    expr = d.operands[1]
                    snap = dict(env2)
                    env2[name] = (lambda pr, expr=expr, snap=snap:
                                  self.ev(expr, snap, pr))
                return self.ev(body, env2, primed)
            if op == '@':
                return self.nodes[int(xs[0].value)]
            if op == r'\S':
                pairs, body = xs
                env2 = dict(env)
                for new, old in pairs:
                    env2[old.value] = (lambda pr, new=new, env=env:
                                       self.ev(new, env, pr))
                return self.ev(body, env2, primed)
            raise NotImplementedError(op)
        raise NotImplementedError(typ)

    def _quant(self, op, names, body, env, primed):
        import itertools
        doms = list()
        for n in names:
            if self.t[n]['type'] == 'bool':
                doms.append([z3.BoolVal(False), z3.BoolVal(True)])
            else:
                lo, hi = self.limits(n)
                doms.append([z3.BitVecVal(v, W) for v in range(lo, hi + 1)])
        inst = list()
        for vals in itertools.product(*doms):
            env2 = dict(env)
            env2.update(zip(names, vals))
            inst.append(self.ev(body, env2, primed))
        return z3.And(*inst) if op == r'\A' else z3.Or(*inst)


def _bv(bits):
    one, zero = z3.BitVecVal(1, 1), z3.BitVecVal(0, 1)
    parts = [z3.If(b, one, zero) for b in reversed(bits)]
    return z3.Concat(*parts) if len(parts) > 1 else parts[0]


def _sdiv(a, b):
    return a / b      # z3: signed division on BitVecRef truncates toward zero


_PARSER = None


def _parser(lexyacc):
    global _PARSER
    if _PARSER is None:
        _PARSER = lexyacc.Parser()
    return _PARSER
