"""Declaration-shape family D (DESIGN.md 2.8)."""
import random

from ovc.worlds import Shape

MODES = [(True, True), (True, False), (False, True), (False, False)]

QUICK = [
    Shape(env=dict(x='bool'), sys=dict(y='bool')),
    Shape(env=dict(x=(0, 2)), sys=dict(y='bool')),
    Shape(env=dict(x='bool'), sys=dict(y=(-1, 1)), const=dict(c='bool')),
    Shape(sys=dict(y=(0, 3))),
    # a Boolean whose name looks like a bit of the integer next to it (x has bits x_0, x_1 only)
    Shape(env=dict(x=(0, 2)), sys=dict(x_5='bool')),
]

EXTRA = [
    Shape(env=dict(x='bool', w='bool'), sys=dict(y='bool', v=(0, 1))),
    Shape(env=dict(x=(-4, -1)), sys=dict(y='bool')),
    Shape(env=dict(x=(2, 2)), sys=dict(y=(0, 2))),
    Shape(env=dict(x='bool'), sys=dict(y='bool'), const=dict(c=(0, 2))),
    Shape(env=dict(x=(-2, 1)), sys=dict(y=(-3, -2))),   # 5 state bits: expansion stays small
]


def _nbits(d):
    t = 0
    for v in d.values():
        if v == 'bool':
            t += 1
        else:
            m = max(abs(v[0]), abs(v[1])).bit_length() or 1
            t += m + (1 if v[0] < 0 <= v[1] else 0)
    return t


def n_state_bits(sh):
    """Approximate number of unprimed bits of the flexible variables."""
    return _nbits(sh.env) + _nbits(sh.sys)


def generated(seed, n, max_bits=10):
    rnd = random.Random(seed)
    out = list()
    hints = ['bool', (0, 1), (0, 2), (0, 3), (-1, 1), (-2, 1), (-4, -1),
             (1, 1), (0, 5), (-3, 3)]
    while len(out) < n:
        ne = rnd.choice([0, 1, 1, 2])
        ns = rnd.choice([1, 1, 2])
        nc = rnd.choice([0, 0, 1])
        env = {f'x{i}': rnd.choice(hints) for i in range(ne)}
        sys_ = {f'y{i}': rnd.choice(hints) for i in range(ns)}
        const = {f'c{i}': rnd.choice(hints[:4]) for i in range(nc)}

        def nb(d):
            t = 0
            for v in d.values():
                if v == 'bool':
                    t += 1
                else:
                    m = max(abs(v[0]), abs(v[1])).bit_length() or 1
                    t += m + (1 if v[0] < 0 <= v[1] else 0)
            return t
        if 2 * (nb(env) + nb(sys_)) + nb(const) <= max_bits:
            out.append(Shape(env=env, sys=sys_, const=const))
    return out


def family(tier, seed):
    if tier == 'quick':
        return list(QUICK)
    return list(QUICK) + list(EXTRA) + generated(seed, 6)


def mode_name(moore, plus_one):
    return ('moore' if moore else 'mealy') + ('+1' if plus_one else '+0')
