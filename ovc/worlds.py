"""Worlds: the same harness runs on symbolic data or on concrete data.

`SymWorld`      `omega` objects over a `SpecBDD`; predicates are uninterpreted.
`ConcreteWorld` `omega` objects over the real `dd` manager; predicates are
                built from truth tables (taken from a solver model, or random).
                Used to replay counter-models on the unmodified real code and
                to search for failing inputs.

A harness states postconditions as z3 formulas over `world.term(node)`; in the
concrete world these formulas are closed (no uninterpreted input predicate) and
are decided by z3 without any `omega` / `dd` code on the specification side.
"""
import itertools
import random

import z3

from ovc import engine as eng
from ovc import specbdd


def _import_omega():
    import omega.symbolic.temporal as trl
    import omega.symbolic.fol as fol
    return trl, fol


class Shape:
    """Declaration shape: which identifiers, owners and type hints."""

    def __init__(self, env=None, sys=None, const=None, name=None):
        self.env = dict(env or {})
        self.sys = dict(sys or {})
        self.const = dict(const or {})
        self.name = name or self._auto_name()

    def _auto_name(self):
        def f(d):
            return ','.join(
                f'{k}:{"b" if v == "bool" else f"{v[0]}..{v[1]}"}'
                for k, v in d.items())
        return f'env[{f(self.env)}] sys[{f(self.sys)}] const[{f(self.const)}]'

    def as_dict(self):
        return dict(env=self.env, sys=self.sys, const=self.const)


class _World:
    symbolic = None

    def _setup(self, shape, kind='automaton'):
        trl, fol = _import_omega()
        self.shape = shape
        if kind == 'automaton':
            aut = trl.Automaton()
        else:
            aut = fol.Context()
        if self.symbolic:
            aut.bdd = specbdd.SpecBDD()
        elif getattr(self, 'backend', None) == 'autoref':
            import dd.autoref as _autoref
            aut.bdd = _autoref.BDD()
        self.aut = aut
        self.bdd = aut.bdd
        if kind == 'automaton':
            if shape.env:
                aut.declare_variables(**shape.env)
            if shape.sys:
                aut.declare_variables(**shape.sys)
            if shape.const:
                aut.declare_constants(**shape.const)
            aut.varlist = dict(env=list(shape.env), sys=list(shape.sys))
            aut.prime_varlists()
        else:
            d = dict(shape.env)
            d.update(shape.sys)
            d.update(shape.const)
            aut.declare(**d)
        self._z = dict()

    # ---- bits
    def bits_of(self, names):
        out = list()
        for v in names:
            d = self.aut.vars[v]
            if d['type'] == 'bool':
                out.append(v)
            else:
                out.extend(d['bitnames'])
        return out

    def group(self, g):
        """Bit names of a group: env, sys, env', sys', const."""
        sh = self.shape
        if g == 'env':
            return self.bits_of(sh.env)
        if g == 'sys':
            return self.bits_of(sh.sys)
        if g == "env'":
            return self.bits_of([f"{v}'" for v in sh.env])
        if g == "sys'":
            return self.bits_of([f"{v}'" for v in sh.sys])
        if g == 'const':
            return self.bits_of(sh.const)
        raise KeyError(g)

    def groups(self, gs):
        out = list()
        for g in gs:
            out.extend(self.group(g))
        return out

    STATE = ('env', 'sys', 'const')
    ACTION = ('env', 'sys', "env'", "sys'", 'const')

    def z(self, bit):
        """z3 constant of a bit."""
        c = self._z.get(bit)
        if c is None:
            c = self._z[bit] = z3.Bool(bit)
        return c

    def zs(self, bits):
        return [self.z(b) for b in bits]

    def prime_map(self, groups=('env', 'sys')):
        """[(z3 unprimed bit, z3 primed bit)] for the flexible bits."""
        out = list()
        for g in groups:
            for b, bp in zip(self.group(g), self.group(g + "'")):
                out.append((self.z(b), self.z(bp)))
        return out

    def valid_goal(self, t):
        """`for all bit values, t` when used ONLY as the goal of an obligation
        whose assumptions do not mention bits: the bits stay free constants
        (skolemised by the negation of the goal), no expansion needed."""
        return t

    def ghost(self, name, over):
        """Specification-only predicate (skolem / schema variable): z3 term."""
        bits = self.groups(over) if not isinstance(over, list) else over
        if not bits:
            return z3.Bool(f'{name}!g')
        f = z3.Function(name, *([z3.BoolSort()] * len(bits)), z3.BoolSort())
        return f(*self.zs(bits))


class SymWorld(_World):
    symbolic = True

    def __init__(self, run, shape, kind='automaton'):
        self.run = run
        self._setup(shape, kind)
        self.inputs = list()   # (name, bits, z3 app) of uninterpreted inputs
        self._replayer = None

    def pred(self, name, over):
        bits = self.groups(over) if not isinstance(over, list) else list(over)
        u = self.bdd.predicate(name, bits)
        self.inputs.append((name, bits, u.t))
        return u

    def const_pred(self, value):
        return self.bdd.true if value else self.bdd.false

    def term(self, u):
        return u.t

    def node(self, t):
        """Wrap a specification term as a node (for stubs)."""
        return specbdd.SNode(self.bdd, t)

    def valid(self, t):
        return self.bdd.valid(t)

    def oblige(self, name, goal, hyps=(), kind='post'):
        replay = None
        if self._replayer is not None:
            inputs = list(self.inputs)
            replayer = self._replayer

            def replay(model, inputs=inputs):
                return replayer(model, inputs, name)
        return self.run.oblige(name, goal, kind=kind, replay=replay,
                               extra=list(hyps))

    def canary(self, name, goal, hyps=()):
        return self.run.canary(name, goal, extra=list(hyps))

    def assume(self, t):
        self.run.assume(t)


class ConcreteWorld(_World):
    symbolic = False

    def __init__(self, shape, interp, kind='automaton', backend=None):
        """`interp(name, bits)` -> function from assignment tuple to bool."""
        self.backend = backend
        self._setup(shape, kind)
        self.interp = interp
        self.failed = list()
        self.checked = list()
        self.inputs_concrete = dict()

    def pred(self, name, over):
        bits = self.groups(over) if not isinstance(over, list) else list(over)
        f = self.interp(name, bits)
        u = self.bdd.false
        sat = list()
        for vals in itertools.product([False, True], repeat=len(bits)):
            if f(vals):
                sat.append(vals)
                u |= self.bdd.cube(dict(zip(bits, vals)))
        self.inputs_concrete[name] = dict(
            bits=bits, true_at=[''.join('1' if v else '0' for v in vals)
                                for vals in sat])
        return u

    def const_pred(self, value):
        return self.bdd.true if value else self.bdd.false

    def term(self, u):
        """Closed z3 term with the truth table of the real BDD `u`."""
        if u == self.bdd.true:
            return z3.BoolVal(True)
        if u == self.bdd.false:
            return z3.BoolVal(False)
        supp = sorted(self.bdd.support(u))
        if len(supp) <= 12:
            cubes = list()
            for d in self.bdd.pick_iter(u, care_vars=supp):
                cubes.append(z3.And(*[
                    self.z(k) if v else z3.Not(self.z(k))
                    for k, v in d.items()]) if d else z3.BoolVal(True))
            return z3.Or(*cubes) if cubes else z3.BoolVal(False)
        # large supports: follow the diagram (linear in its size) instead of
        # enumerating assignments; a reference may be complemented, the
        # successors belong to the regular node
        memo = dict()
        true, false = self.bdd.true, self.bdd.false

        def rec(v):
            if v == true:
                return z3.BoolVal(True)
            if v == false:
                return z3.BoolVal(False)
            if v.negated:
                return z3.Not(rec(~ v))
            k = int(v)
            if k not in memo:
                memo[k] = z3.If(self.z(v.var), rec(v.high), rec(v.low))
            return memo[k]
        return rec(u)

    def valid(self, t):
        used = specbdd._consts(t)
        qs = [self.z(b) for b in self.bdd.vars if b in used]
        from ovc import spec as _spec
        return _spec.forall(qs, t)

    def tt(self, u, bits):
        """Set of value tuples over `bits` at which the real BDD `u` is true."""
        bits = list(bits)
        extra = set(self.bdd.support(u)) - set(bits)
        assert not extra, extra
        out = set()
        if not bits:
            return {()} if u == self.bdd.true else set()
        for d in self.bdd.pick_iter(u, care_vars=bits):
            out.add(tuple(bool(d[b]) for b in bits))
        return out

    def fail(self, name, witness):
        self.checked.append(name)
        self.failed.append(dict(name=name, witness=witness))

    def oblige(self, name, goal, hyps=(), kind='post'):
        if isinstance(goal, eng.SymBool):
            goal = goal.t
        r, model, dt, _ = eng.check_sat(list(hyps) + [z3.Not(goal)])
        ok = (r == 'unsat')
        self.checked.append(name)
        if r == 'sat':
            self.failed.append(dict(
                name=name, witness=eng._model_text(model, 800)
                if model is not None else None))
        elif r != 'unsat':
            self.failed.append(dict(name=name, witness='undecided'))
        return ok

    def canary(self, name, goal, hyps=()):
        return None

    def assume(self, t):
        pass


def interp_from_model(model, inputs):
    """Interpretation of input predicates taken from a z3 model."""
    table = dict()
    for name, bits, app in inputs:
        if z3.is_const(app):
            v = model.eval(app, model_completion=True)
            val = z3.is_true(v)
            table[name] = (lambda vals, val=val: val)
            continue
        decl = app.decl()
        tt = dict()
        for vals in itertools.product([False, True], repeat=len(bits)):
            e = model.eval(decl(*[z3.BoolVal(v) for v in vals]),
                           model_completion=True)
            tt[vals] = z3.is_true(e)
        table[name] = tt.__getitem__
    return lambda name, bits: table[name]


def interp_random(seed):
    rnd = random.Random(seed)
    cache = dict()

    def interp(name, bits):
        if name not in cache:
            n = len(bits)
            p = rnd.choice([0.2, 0.5, 0.8])
            tt = {vals: rnd.random() < p
                  for vals in itertools.product([False, True], repeat=n)}
            cache[name] = tt.__getitem__
        return cache[name]
    return interp
