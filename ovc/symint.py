"""Symbolic Python integers (mathematical integers = z3 Int).

`omega` uses no machine arithmetic.  The two non-linear builtins it applies to
integers are axiomatised (assumption A8, the documented behaviour of CPython):

* `x.bit_length()` -> fresh b with  x = 0 => b = 0,
                                    x # 0 => b >= 1 /\\ pow2(b-1) <= |x| < pow2(b)
* `2 ** n`         -> pow2(n), uninterpreted with pow2(0) = 1,
                      pow2(i+1) = 2 pow2(i) for i >= 0 (ground instances are
                      added for the terms that occur; plus the universally
                      quantified axiom).
"""
import z3

from ovc import engine as eng

pow2 = z3.Function('pow2', z3.IntSort(), z3.IntSort())
_cnt = [0]


def pow2_axioms():
    """Ground instances only (the recurrence instances for the terms that
    occur are added by `__rpow__` and `bit_length`); keeps queries
    quantifier-free."""
    return [pow2(0) == 1, pow2(1) == 2, pow2(2) == 4]


def _t(x):
    if isinstance(x, SymInt):
        return x.t
    if isinstance(x, bool):
        return z3.IntVal(int(x))
    if isinstance(x, int):
        return z3.IntVal(x)
    return NotImplemented


class SymInt:
    __slots__ = ('t',)

    def __init__(self, t):
        self.t = t if not isinstance(t, str) else z3.Int(t)

    def _bin(self, o, f):
        b = _t(o)
        if b is NotImplemented:
            return NotImplemented
        return SymInt(z3.simplify(f(self.t, b)))

    def __add__(self, o):
        return self._bin(o, lambda a, b: a + b)

    __radd__ = __add__

    def __sub__(self, o):
        return self._bin(o, lambda a, b: a - b)

    def __rsub__(self, o):
        return self._bin(o, lambda a, b: b - a)

    def __mul__(self, o):
        return self._bin(o, lambda a, b: a * b)

    __rmul__ = __mul__

    def __neg__(self):
        return SymInt(-self.t)

    def __pos__(self):
        return self

    def __abs__(self):
        return SymInt(z3.If(self.t < 0, -self.t, self.t))

    def __rpow__(self, base):
        if base != 2:
            raise eng.OutOfReach('only 2 ** n is axiomatised')
        run = eng.current()
        run.assume(z3.Implies(self.t >= 0, z3.And(
            pow2(self.t) >= 1,
            z3.Implies(self.t >= 1, pow2(self.t) == 2 * pow2(self.t - 1)))))
        return SymInt(pow2(self.t))

    def bit_length(self):
        _cnt[0] += 1
        b = z3.Int(f'bitlen!{_cnt[0]}')
        a = z3.If(self.t < 0, -self.t, self.t)
        run = eng.current()
        run.assume(z3.And(
            b >= 0,
            z3.Implies(self.t == 0, b == 0),
            z3.Implies(self.t != 0, z3.And(
                b >= 1, pow2(b - 1) <= a, a < pow2(b),
                pow2(b) == 2 * pow2(b - 1), pow2(b - 1) >= b,
                (b == 1) == (pow2(b - 1) == 1)))))
        return SymInt(b)

    def _cmp(self, o, f):
        b = _t(o)
        if b is NotImplemented:
            return NotImplemented
        return eng.SymBool(f(self.t, b))

    def __lt__(self, o):
        return self._cmp(o, lambda a, b: a < b)

    def __le__(self, o):
        return self._cmp(o, lambda a, b: a <= b)

    def __gt__(self, o):
        return self._cmp(o, lambda a, b: a > b)

    def __ge__(self, o):
        return self._cmp(o, lambda a, b: a >= b)

    def __eq__(self, o):
        b = _t(o)
        if b is NotImplemented:
            return False
        return eng.SymBool(self.t == b)

    def __ne__(self, o):
        b = _t(o)
        if b is NotImplemented:
            return True
        return eng.SymBool(self.t != b)

    def __hash__(self):
        return self.t.get_id()

    def __index__(self):
        raise eng.OutOfReach('symbolic integer used where CPython needs a concrete one')

    __int__ = __index__

    def __repr__(self):
        return f'SymInt({self.t})'

    def __format__(self, spec):
        # reserved identifier; meaningful only to ovc's denotation functions
        return f'ovc_i{self.t.get_id()}'

    def __str__(self):
        return f'ovc_i{self.t.get_id()}'
