"""Trace semantics for the past->future translation (C15).  SPECIFICATION.

`TraceDen` evaluates a (future, Boolean) formula string produced by
`omega.logic.past` at a symbolic position `n` of a behaviour whose variables
are uninterpreted functions Int -> Bool; a primed sub-expression is evaluated
at `n + 1`.  Strings are parsed with the real parser (default AST).

`PastSem` gives the anchored past-LTL meaning of an ORIGINAL formula over a
finite symbolic trace prefix (bounded end-to-end checks).
"""
import z3

_P = None


def parser():
    global _P
    if _P is None:
        import omega.logic.lexyacc as lexyacc
        _P = lexyacc.Parser()
    return _P


class TraceDen:
    def __init__(self, funcs):
        self.f = funcs           # name -> z3 Function(Int, Bool)

    def at(self, s, n):
        tree = parser().parse(s) if isinstance(s, str) else s
        return self.ev(tree, n)

    def ev(self, u, n):
        typ = type(u).__name__
        if typ == 'Bool':
            return z3.BoolVal(u.value.lower() == 'true')
        if typ == 'Var':
            if u.value not in self.f:
                raise KeyError(f'unknown identifier {u.value}')
            return self.f[u.value](n)
        op, xs = u.operator, u.operands
        if typ == 'Unary':
            if op == '~':
                return z3.Not(self.ev(xs[0], n))
            if op in ('X', "'"):
                return self.ev(xs[0], n + 1)
            raise NotImplementedError(op)
        if typ == 'Binary':
            a, b = self.ev(xs[0], n), self.ev(xs[1], n)
            return {'/\\': z3.And(a, b), r'\/': z3.Or(a, b),
                    '=>': z3.Implies(a, b), '<=>': a == b,
                    '^': z3.Xor(a, b)}[op]
        if typ == 'Operator' and op == 'ite':
            return z3.If(self.ev(xs[0], n), self.ev(xs[1], n),
                         self.ev(xs[2], n))
        raise NotImplementedError((typ, op))


class PastSem:
    """Anchored semantics over a finite trace: vals[name][i] are z3 Bools."""

    def __init__(self, vals, length):
        self.v = vals
        self.L = length

    def at(self, s, i):
        tree = parser().parse(s) if isinstance(s, str) else s
        return self.ev(tree, i)

    def ev(self, u, i):
        typ = type(u).__name__
        if typ == 'Bool':
            return z3.BoolVal(u.value.lower() == 'true')
        if typ == 'Var':
            return self.v[u.value][i]
        op, xs = u.operator, u.operands
        if typ == 'Unary':
            x = xs[0]
            if op == '~':
                return z3.Not(self.ev(x, i))
            if op == 'X':        # next (also written as a postfix prime): needs position i + 1
                if i + 1 >= len(next(iter(self.v.values()))):
                    raise IndexError('next beyond the end of the finite trace')
                return self.ev(x, i + 1)
            if op == '-X':       # weak previous: true at position 0
                return z3.BoolVal(True) if i == 0 else self.ev(x, i - 1)
            if op == '--X':      # strong previous: false at position 0
                return z3.BoolVal(False) if i == 0 else self.ev(x, i - 1)
            if op == '-[]':
                return z3.And(*[self.ev(x, j) for j in range(i + 1)])
            if op == '-<>':
                return z3.Or(*[self.ev(x, j) for j in range(i + 1)])
            raise NotImplementedError(op)
        if typ == 'Binary':
            if op == 'S':
                p, q = xs
                return z3.Or(*[
                    z3.And(self.ev(q, j),
                           *[self.ev(p, k) for k in range(j + 1, i + 1)])
                    for j in range(i + 1)])
            a, b = self.ev(xs[0], i), self.ev(xs[1], i)
            return {'/\\': z3.And(a, b), r'\/': z3.Or(a, b),
                    '=>': z3.Implies(a, b), '<=>': a == b,
                    '^': z3.Xor(a, b)}[op]
        if typ == 'Operator' and op == 'ite':
            return z3.If(self.ev(xs[0], i), self.ev(xs[1], i),
                         self.ev(xs[2], i))
        raise NotImplementedError((typ, op))
