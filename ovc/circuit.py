"""Circuit world for `omega.logic.bitvector` generators (C06).

Generators take and return lists of *strings* (prefix formulas over bit names
and memory registers `? k`).  They are run by CPython on lists of opaque atoms;
the strings they return are given meaning by the REAL prefix evaluator
(`omega.symbolic.bdd.parser` + `BDDNodes`) over a `SpecBDD`, cells in order,
exactly as `Buffer.flatten` does.  Integer meaning of a bit list is the spec
function `sval` (two's complement), written here in z3 integers.
"""
import itertools

import z3

from ovc import engine as eng
from ovc import specbdd


def sval(ts):
    """Two's complement value of a list of z3 Bool terms (LSB first)."""
    n = len(ts)
    assert n >= 1
    terms = [z3.If(b, z3.IntVal(2 ** i), z3.IntVal(0))
             for i, b in enumerate(ts[:-1])]
    terms.append(z3.If(ts[-1], z3.IntVal(-2 ** (n - 1)), z3.IntVal(0)))
    return z3.Sum(*terms) if len(terms) > 1 else terms[0]


def uval(ts):
    """Unsigned value."""
    terms = [z3.If(b, z3.IntVal(2 ** i), z3.IntVal(0))
             for i, b in enumerate(ts)]
    if not terms:
        return z3.IntVal(0)
    return z3.Sum(*terms) if len(terms) > 1 else terms[0]


def bv_of(ts):
    """Bit-vector term (width len(ts)) from Bool terms, LSB first."""
    one, zero = z3.BitVecVal(1, 1), z3.BitVecVal(0, 1)
    parts = [z3.If(b, one, zero) for b in reversed(ts)]
    return z3.Concat(*parts) if len(parts) > 1 else parts[0]


class Circ:
    """Evaluation context: atoms + memory."""

    def __init__(self):
        import omega.symbolic.bdd as sym_bdd
        self.sym_bdd = sym_bdd
        self.B = specbdd.SpecBDD()
        self.k = 0

    def atoms(self, prefix, n):
        names = [f'{prefix}{i}' for i in range(n)]
        for a in names:
            self.B.add_var(a)
        return names

    def operand(self, prefix, n, sign='var'):
        """Bit list of width n: atoms, with a literal sign bit if asked
        (what `_append_sign_bit` produces for sign-definite hints)."""
        if sign == 'var':
            return self.atoms(prefix, n)
        return self.atoms(prefix, n - 1) + [sign]

    def junk(self, n):
        """`n` pre-existing memory cells holding arbitrary values."""
        self.k += 1
        return self.atoms(f'junk{self.k}_', n)

    def eval_mem(self, cells):
        """Evaluate memory cells in order with the real evaluator."""
        vals = list()
        if not cells:
            return vals
        s = f'$ {len(cells)} ' + ' '.join(cells)
        tree = self.sym_bdd.parser.parse(s)
        tree.flatten(bdd=self.B, mem=vals, same_mem=True)
        assert len(vals) == len(cells), (len(vals), len(cells))
        return vals

    def eval_bit(self, s, vals):
        tree = self.sym_bdd.parser.parse(s)
        u = tree.flatten(bdd=self.B, mem=vals)
        return u.t

    def eval_bits(self, bits, vals):
        return [self.eval_bit(b, vals) for b in bits]

    def z(self, name):
        return self.B.vars[name]


def registers_in_range(bits, nmem):
    """Every `? k` in the strings addresses a cell < nmem."""
    import re
    for b in bits:
        for m in re.finditer(r'\?\s*(\d+)', b):
            if int(m.group(1)) >= nmem:
                return False
    return True


# ---------------------------------------------------------------------------
# replay on the real dd manager

def real_eval(cells, bits, assignment):
    """Evaluate with the REAL pipeline: dd.cudd (or autoref) + symbolic.bdd.

    `assignment`: dict atom name -> bool.  Returns list of bool for `bits`.
    """
    try:
        import dd.cudd as _bdd
    except ImportError:
        import dd.autoref as _bdd
    import omega.symbolic.bdd as sym_bdd
    bdd = _bdd.BDD()
    for a in assignment:
        bdd.add_var(a)
    out = list()
    for b in bits:
        s = f'$ {len(cells) + 1} ' + ' '.join(list(cells) + [b])
        u = sym_bdd.add_expr(s, bdd)
        v = bdd.let(assignment, u)
        assert v == bdd.true or v == bdd.false, 'free atom left'
        out.append(v == bdd.true)
    return out


def to_int(bools):
    n = len(bools)
    return sum(2 ** i for i, b in enumerate(bools[:-1]) if b) - (
        2 ** (n - 1) if bools[-1] else 0)


def model_assignment(model, circ):
    return {name: z3.is_true(model.eval(c, model_completion=True))
            for name, c in circ.B.vars.items()}


def verify_circuit(harness):
    """Run `harness(run)`; return dict(records, stats, functions)."""
    functions = dict()

    def h(run):
        harness(run, functions)
    records, stats = eng.explore(h)
    return dict(records=records, stats=stats, functions=functions)
