"""Mechanical extraction of the real functions, with loops cut at invariants.

On every run the source of the function is obtained from the tree under test
(`inspect.getsource`), parsed, and

    while C:            __vc.entry(k, locals())            # prove Inv on entry
        B        ==>    (v1,..,vn) = __vc.havoc(k, locals())   # names stored in B; assume Inv
                        while True:
                            if not C: break                # fall through with Inv /\\ ~C
                            B
                            __vc.back(k, locals())         # prove Inv; end of path

    for x in XS:        __it = __vc.for_entry(k, locals())     # (XS evaluated once)
        B        ==>    (v1,..,vn) = __vc.havoc(k, locals())
                        if __vc.for_more(k, locals()):
                            x = __vc.for_item(k, locals())
                            B
                            __vc.back(k, locals())

Nothing else is changed.  What the extraction drops: the back edge only.
The single unrolled iteration sits inside `while True:` so that a `break` (or
`return`) of the original loop is an ordinary exit; a `continue` of the cut
loop is a back edge.  It refuses (`Unsupported`) `yield` inside a cut loop,
`else` clauses of cut loops, and loop ordinals that do not exist.

The rewritten function is compiled in a *copy* of the defining module's
namespace, in which callees under contract are replaced by their stubs
(`overrides`), including module-qualified ones (`fx.step`) via `ModuleProxy`.
"""
import ast
import inspect
import textwrap
import types

from ovc.engine import Unsupported


class ModuleProxy:
    def __init__(self, mod, overrides):
        object.__setattr__(self, '_mod', mod)
        object.__setattr__(self, '_ovr', dict(overrides))

    def __getattr__(self, name):
        ovr = object.__getattribute__(self, '_ovr')
        if name in ovr:
            return ovr[name]
        return getattr(object.__getattribute__(self, '_mod'), name)


def _stored_names(stmts):
    names = set()

    class V(ast.NodeVisitor):
        def visit_Name(self, node):
            if isinstance(node.ctx, (ast.Store, ast.Del)):
                names.add(node.id)

        def visit_ListComp(self, node):
            pass

        visit_SetComp = visit_DictComp = visit_GeneratorExp = visit_ListComp

        def visit_FunctionDef(self, node):
            names.add(node.name)

        def visit_Lambda(self, node):
            pass

    v = V()
    for s in stmts:
        v.visit(s)
    return names


_MUTATORS = {'append', 'extend', 'insert', 'add', 'update', 'pop', 'remove', 'clear', 'setdefault',
             'discard', 'sort', 'reverse', 'popitem', 'appendleft', 'popleft'}


def _mutated_in_place(stmts):
    """Names whose OBJECT is changed in place by the statements: `n[...] = v`,
    `n.attr = v`, `del n[...]`, `n.append(...)` and the like, augmented
    assignment to a subscript / attribute."""
    names = set()

    def base(node):
        while isinstance(node, (ast.Subscript, ast.Attribute)):
            node = node.value
        return node.id if isinstance(node, ast.Name) else None

    class V(ast.NodeVisitor):
        def visit_Subscript(self, node):
            if isinstance(node.ctx, (ast.Store, ast.Del)):
                b = base(node)
                if b:
                    names.add(b)
            self.generic_visit(node)

        def visit_Attribute(self, node):
            if isinstance(node.ctx, (ast.Store, ast.Del)):
                b = base(node)
                if b:
                    names.add(b)
            self.generic_visit(node)

        def visit_Call(self, node):
            f = node.func
            if isinstance(f, ast.Attribute) and f.attr in _MUTATORS:
                b = base(f.value)
                if b:
                    names.add(b)
            self.generic_visit(node)

        def visit_FunctionDef(self, node):
            pass

        def visit_Lambda(self, node):
            pass
    v = V()
    for st in stmts:
        v.visit(st)
    return names


def _check_body(stmts, fname, k):
    """Refuse `yield` in a cut loop.  `break` and `return` are ordinary exits of
    the single unrolled iteration; a top-level `continue` is a back edge."""
    class V(ast.NodeVisitor):
        def visit_Yield(self, node):
            raise Unsupported(f'{fname}: yield in cut loop {k}')

        visit_YieldFrom = visit_Yield

        def visit_FunctionDef(self, node):
            pass

        def visit_Lambda(self, node):
            pass

    v = V()
    for s in stmts:
        v.visit(s)


class _ContinueToBack(ast.NodeTransformer):
    """Replace `continue` statements that belong to the cut loop itself by the
    back-edge call (which ends the path)."""

    def __init__(self, k):
        self.k = k

    def visit_While(self, node):
        return node         # inner loops keep their own continue / break

    visit_For = visit_While

    def visit_FunctionDef(self, node):
        return node

    def visit_Lambda(self, node):
        return node

    def visit_Continue(self, node):
        return ast.Expr(_call('back', self.k))


def _call(method, k):
    return ast.Call(
        func=ast.Attribute(value=ast.Name(id='__vc', ctx=ast.Load()),
                           attr=method, ctx=ast.Load()),
        args=[ast.Constant(k),
              ast.Call(func=ast.Name(id='locals', ctx=ast.Load()),
                       args=[], keywords=[])],
        keywords=[])


class _Cutter(ast.NodeTransformer):
    def __init__(self, fname, loops):
        self.fname = fname
        self.loops = loops          # ordinal -> declared names (set)
        self.ordinal = -1
        self.cut = dict()           # ordinal -> stored names (sorted)
        self.inplace = dict()       # ordinal -> names of objects mutated in place (not re-bound in the body)
        self.in_nested = 0

    def _havoc_assign(self, k, names):
        if not names:
            return ast.Expr(_call('havoc', k))
        tgt = ast.Tuple(
            elts=[ast.Name(id=n, ctx=ast.Store()) for n in names],
            ctx=ast.Store())
        return ast.Assign(targets=[tgt], value=_call('havoc', k))

    def visit_While(self, node):
        self.ordinal += 1
        k = self.ordinal
        self.generic_visit(node)
        if k not in self.loops:
            return node
        if node.orelse:
            raise Unsupported(f'{self.fname}: else clause on cut loop {k}')
        _check_body(node.body, self.fname, k)
        names = sorted(_stored_names(node.body))
        self.cut[k] = names
        self.inplace[k] = sorted(_mutated_in_place(node.body) - set(names))
        body = [_ContinueToBack(k).visit(b) for b in node.body]
        # one unrolled iteration inside `while True` so that a `break` of the
        # original loop leaves it; every other path ends in back() (EndOfPath)
        new = [
            ast.Expr(_call('entry', k)),
            self._havoc_assign(k, names),
            ast.While(test=ast.Constant(True), body=[
                ast.If(test=ast.UnaryOp(op=ast.Not(), operand=node.test),
                       body=[ast.Break()], orelse=[])]
                + body + [ast.Expr(_call('back', k))], orelse=[])]
        return new

    def visit_For(self, node):
        self.ordinal += 1
        k = self.ordinal
        self.generic_visit(node)
        if k not in self.loops:
            return node
        if node.orelse:
            raise Unsupported(f'{self.fname}: else clause on cut loop {k}')
        _check_body(node.body, self.fname, k)
        names = sorted(_stored_names(node.body) | _stored_names([node.target]))
        self.cut[k] = names
        self.inplace[k] = sorted(_mutated_in_place(node.body) - set(names))
        it_call = _call('for_entry', k)
        it_call.args.append(node.iter)
        body = [_ContinueToBack(k).visit(b) for b in node.body]
        new = [
            ast.Expr(it_call),
            self._havoc_assign(k, names),
            ast.While(test=ast.Constant(True), body=[
                ast.If(test=ast.UnaryOp(op=ast.Not(), operand=_call('for_more', k)),
                       body=[ast.Break()], orelse=[]),
                ast.Assign(targets=[node.target], value=_call('for_item', k))]
                + body + [ast.Expr(_call('back', k))], orelse=[])]
        return new


def _locals_in_order(fdef):
    """Parameters, then every other stored name, in order of first binding."""
    order = [a.arg for a in (fdef.args.posonlyargs + fdef.args.args)]
    if fdef.args.vararg:
        order.append(fdef.args.vararg.arg)
    order += [a.arg for a in fdef.args.kwonlyargs]
    if fdef.args.kwarg:
        order.append(fdef.args.kwarg.arg)
    seen = set(order)

    class V(ast.NodeVisitor):
        def visit_Name(self, node):
            if isinstance(node.ctx, (ast.Store, ast.Del)) and node.id not in seen:
                seen.add(node.id)
                order.append(node.id)

        def visit_Assign(self, node):
            # evaluation order: value first, but binding order is what counts
            for t in node.targets:
                self.visit(t)
            self.visit(node.value)

        def visit_ListComp(self, node):
            pass

        visit_SetComp = visit_DictComp = visit_GeneratorExp = visit_ListComp

        def visit_FunctionDef(self, node):
            if node is not fdef:
                if node.name not in seen:
                    seen.add(node.name)
                    order.append(node.name)
                return
            for b in node.body:
                self.visit(b)

        def visit_Lambda(self, node):
            pass

    V().visit(fdef)
    return order


_LOCALS_ORDER = None


def _expected_locals(qualname):
    """Names of the locals of `qualname` as the sidecars know them (committed
    file contracts/locals_order.json, written by selftest/record_locals.sh on
    the unchanged tree; never written during a check)."""
    global _LOCALS_ORDER
    import json
    import os
    if _LOCALS_ORDER is None:
        path = os.path.join(os.path.dirname(os.path.dirname(os.path.abspath(__file__))),
                            'contracts', 'locals_order.json')
        try:
            _LOCALS_ORDER = json.load(open(path))
        except (OSError, ValueError):
            _LOCALS_ORDER = dict()
    return _LOCALS_ORDER.get(qualname)


def _record_locals(qualname, order):
    import json
    import os
    path = os.environ['OVC_RECORD_LOCALS']
    os.makedirs(path, exist_ok=True)
    with open(os.path.join(path, qualname.replace('/', '_') + '.json'), 'w') as f:
        json.dump({qualname: order}, f)


def _alpha_rename(fdef, qualname):
    """A pure renaming of locals / parameters must not matter: if the current
    source binds the same NUMBER of names in the same order as the source the
    sidecar was written for, rename them positionally to the sidecar's names
    (alpha conversion; refused if a new name is used free in the function)."""
    import os
    order = _locals_in_order(fdef)
    if os.environ.get('OVC_RECORD_LOCALS'):
        _record_locals(qualname, order)
        return None
    want = _expected_locals(qualname)
    if want is None or want == order or len(want) != len(order):
        return None
    if set(want) == set(order):
        return None          # same names, other order: nothing to rename
    ren = {a: b for a, b in zip(order, want) if a != b}
    if len(set(ren.values())) != len(ren) or set(ren.values()) & (set(order) - set(ren)):
        return None
    free = {n.id for n in ast.walk(fdef) if isinstance(n, ast.Name)} - set(order)
    if free & set(ren.values()):
        return None
    for node in ast.walk(fdef):
        if isinstance(node, ast.Name) and node.id in ren:
            node.id = ren[node.id]
        elif isinstance(node, ast.arg) and node.arg in ren:
            node.arg = ren[node.arg]
    return ren


def extract(func, loops=None, overrides=None, vc=None, module_overrides=None):
    """Re-compile `func` from its current source.

    @param loops: dict ordinal -> anything (only keys are used here)
    @param overrides: dict global-name -> replacement (stubs)
    @param module_overrides: dict module-alias -> dict attr -> replacement
    @return: (function, info) where info has `source_lines`, `cut` (ordinal ->
        stored names) and `dropped`
    """
    loops = dict(loops or {})
    func = inspect.unwrap(func)
    if isinstance(func, (staticmethod, classmethod)):
        func = func.__func__
    src = textwrap.dedent(inspect.getsource(func))
    tree = ast.parse(src)
    fdef = tree.body[0]
    if not isinstance(fdef, (ast.FunctionDef,)):
        raise Unsupported(f'{func.__qualname__}: not a plain function')
    fdef.decorator_list = []
    renamed = _alpha_rename(fdef, f'{func.__module__}.{func.__qualname__}') if loops else None
    cutter = _Cutter(func.__qualname__, loops)
    fdef.body = [cutter.visit(s) for s in fdef.body]
    # flatten lists produced by the transformer at top level
    flat = list()
    for s in fdef.body:
        if isinstance(s, list):
            flat.extend(s)
        else:
            flat.append(s)
    fdef.body = flat
    missing = set(loops) - set(cutter.cut)
    if missing:
        raise Unsupported(
            f'{func.__qualname__}: no loop with ordinal(s) {sorted(missing)} '
            f'(found {cutter.ordinal + 1} loops)')
    ast.fix_missing_locations(tree)
    ns = dict(func.__globals__)
    for alias, d in (module_overrides or {}).items():
        if alias not in ns:
            raise Unsupported(
                f'{func.__qualname__}: module alias `{alias}` not in its globals')
        ns[alias] = ModuleProxy(ns[alias], d)
    for name, repl in (overrides or {}).items():
        if name not in ns:
            raise Unsupported(
                f'{func.__qualname__}: global `{name}` not in its namespace')
        ns[name] = repl
    ns['__vc'] = vc
    rewrote_super = False
    # zero-argument `super()` needs the `__class__` cell: rewrite it to the
    # explicit two-argument form with the owning class (resolved by qualname)
    if func.__code__.co_freevars:
        if func.__code__.co_freevars != ('__class__',):
            raise Unsupported(f'{func.__qualname__}: closures not supported')
        owner = func.__globals__
        obj = None
        for part in func.__qualname__.split('.')[:-1]:
            obj = owner[part] if obj is None else getattr(obj, part)
        if obj is None or not fdef.args.args:
            raise Unsupported(f'{func.__qualname__}: cannot resolve owning class')
        first = fdef.args.args[0].arg
        for node in ast.walk(tree):
            if (isinstance(node, ast.Call) and isinstance(node.func, ast.Name)
                    and node.func.id == 'super' and not node.args):
                node.args = [ast.Name(id='__ovc_class', ctx=ast.Load()),
                             ast.Name(id=first, ctx=ast.Load())]
        ast.fix_missing_locations(tree)
        ns['__ovc_class'] = obj
        rewrote_super = True
    code = compile(tree, f'<ovc:{func.__module__}.{func.__qualname__}>', 'exec')
    exec(code, ns)
    new = ns[fdef.name]
    # a stub for the function's own name (recursive call by contract)
    if overrides and fdef.name in overrides:
        ns[fdef.name] = overrides[fdef.name]
    info = dict(
        function=f'{func.__module__}.{func.__qualname__}',
        source_lines=len(src.splitlines()),
        cut={k: v for k, v in cutter.cut.items()},
        inplace={k: v for k, v in cutter.inplace.items()},
        n_loops=cutter.ordinal + 1,
        renamed=renamed,
        dropped=('back edges of loops ' + str(sorted(cutter.cut)) if cutter.cut
                 else 'nothing') + ('; zero-argument super() rewritten to '
                                    'super(<owning class>, self)' if rewrote_super else '')
        + (f'; locals renamed positionally to the names the sidecar uses: {renamed}' if renamed else ''))
    return new, info


class Poison:
    """Value of a loop-carried local that the sidecar does not declare."""

    def __init__(self, what):
        object.__setattr__(self, '_what', what)

    def _no(self, *a, **k):
        raise Unsupported(
            f'{object.__getattribute__(self, "_what")} is read before being '
            'assigned in the cut loop body but is not declared in the sidecar')
    __getattr__ = __call__ = __bool__ = __eq__ = __ne__ = __and__ = _no
    __or__ = __invert__ = __iter__ = __len__ = __getitem__ = __hash__ = _no
    __rand__ = __ror__ = __xor__ = __rxor__ = __str__ = __repr__ = _no


class _Locals(dict):
    def __init__(self, d, declared):
        super().__init__(d)
        self._declared = declared

    def __missing__(self, key):
        if key in self._declared:
            return None
        raise KeyError(key)


class LoopVC:
    """Run-time side of the cut: proves / assumes invariants.

    `specs[k]` has:
      vars:  dict name -> maker(world, L) returning the havoc'd value
      inv:   callable(L: dict) -> z3 formula or list of (label, formula)
      for_item (for loops): maker(world, L) of the loop target value
      for_more (for loops): callable(world, L) -> bool/SymBool "another item exists"
    """

    def __init__(self, world, fname, specs):
        self.world = world
        self.fname = fname
        self.specs = specs
        self.reached = set()

    def _inv(self, k, L, unbound_is_none=False):
        # on ENTRY a declared loop-carried local that is not bound yet reads as
        # None (e.g. `qold` before a `while True:` loop that assigns it first)
        L = _Locals(L, self.specs[k]['vars'] if unbound_is_none else ())
        try:
            r = self.specs[k]['inv'](L)
        except KeyError as e:
            raise Unsupported(
                f'{self.fname}: the sidecar invariant of loop {k} refers to the '
                f'local {e} which the current source does not have')
        if isinstance(r, list):
            return r
        return [('inv', r)]

    def entry(self, k, L):
        self.reached.add(k)
        for label, f in self._inv(k, dict(L), unbound_is_none=True):
            self.world.oblige(
                f'{self.fname}.loop{k}.{label}.establish', f, kind='loop')

    def for_entry(self, k, L, iterable):
        self._iter = iterable
        self.entry(k, dict(L, __iter=iterable))

    def havoc(self, k, L):
        spec = self.specs[k]
        names = spec['names']
        for n in spec.get('inplace', ()):
            if n not in spec.get('mutated', {}) and n not in spec['vars'] and n not in spec.get('mutated_ok', ()):
                raise Unsupported(
                    f'{self.fname}: the object `{n}` is changed in place inside cut loop {k} '
                    'but the sidecar does not say how (its state at an arbitrary iteration is unknown)')
        for n in spec['vars']:
            if n not in names and n not in L:
                raise Unsupported(
                    f'{self.fname}: the sidecar declares the loop-carried local `{n}` '
                    f'of loop {k}, which the current source does not have')
        L = dict(L)
        new = dict()
        for n in names:
            if n in spec['vars']:
                new[n] = spec['vars'][n](self.world, L)
            else:
                # a local the sidecar does not know (e.g. introduced by a
                # refactoring): sound as long as the body assigns it before
                # reading it; any use of the poison value stops the check as
                # unsupported, never as proved
                new[n] = Poison(f'{self.fname}: loop {k} local `{n}`')
        L.update(new)
        # objects mutated in place by the loop body (e.g. `zk.append(z)`)
        for n, fn in spec.get('mutated', {}).items():
            fn(self.world, L)
        if hasattr(self, '_iter'):
            L['__iter'] = self._iter
        for label, f in self._inv(k, L):
            self.world.assume(f)
        return tuple(new[n] for n in names)

    def for_more(self, k, L):
        return self.specs[k]['for_more'](self.world, dict(L, __iter=self._iter))

    def for_item(self, k, L):
        return self.specs[k]['for_item'](self.world, dict(L, __iter=self._iter))

    def back(self, k, L):
        from ovc.engine import EndOfPath
        L = dict(L)
        if hasattr(self, '_iter'):
            L['__iter'] = self._iter
        for label, f in self._inv(k, L):
            self.world.oblige(
                f'{self.fname}.loop{k}.{label}.preserve', f, kind='loop')
        raise EndOfPath()
