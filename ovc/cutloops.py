"""Mechanical extraction of the real functions, with loops cut at invariants.

On every run the source of the function is obtained from the tree under test
(`inspect.getsource`), parsed, and

    while C:            __vc.entry(k, locals())            # prove Inv on entry
        B        ==>    (v1,..,vn) = __vc.havoc(k, locals())   # names stored in B; assume Inv
                        if C:
                            B
                            __vc.back(k, locals())         # prove Inv; end of path
                        # else: fall through with Inv /\\ ~C

    for x in XS:        __it = __vc.for_entry(k, locals())     # (XS evaluated once)
        B        ==>    (v1,..,vn) = __vc.havoc(k, locals())
                        if __vc.for_more(k, locals()):
                            x = __vc.for_item(k, locals())
                            B
                            __vc.back(k, locals())

Nothing else is changed.  What the extraction drops: the back edge only.
It refuses (`Unsupported`) `break`/`continue`/`return`/`yield` inside a cut
loop, `else` clauses of cut loops, and loop ordinals that do not exist.

The rewritten function is compiled in a *copy* of the defining module's
namespace, in which callees under contract are replaced by their stubs
(`overrides`), including module-qualified ones (`fx.step`) via `ModuleProxy`.
"""
import ast
import inspect
import textwrap
import types

from ovc.engine import Unsupported


class ModuleProxy:
    def __init__(self, mod, overrides):
        object.__setattr__(self, '_mod', mod)
        object.__setattr__(self, '_ovr', dict(overrides))

    def __getattr__(self, name):
        ovr = object.__getattribute__(self, '_ovr')
        if name in ovr:
            return ovr[name]
        return getattr(object.__getattribute__(self, '_mod'), name)


def _stored_names(stmts):
    names = set()

    class V(ast.NodeVisitor):
        def visit_Name(self, node):
            if isinstance(node.ctx, (ast.Store, ast.Del)):
                names.add(node.id)

        def visit_ListComp(self, node):
            pass

        visit_SetComp = visit_DictComp = visit_GeneratorExp = visit_ListComp

        def visit_FunctionDef(self, node):
            names.add(node.name)

        def visit_Lambda(self, node):
            pass

    v = V()
    for s in stmts:
        v.visit(s)
    return names


def _check_body(stmts, fname, k):
    class V(ast.NodeVisitor):
        depth = 0

        def visit_While(self, node):
            self.depth += 1
            self.generic_visit(node)
            self.depth -= 1

        visit_For = visit_While

        def visit_Break(self, node):
            if self.depth == 0:
                raise Unsupported(f'{fname}: break in cut loop {k}')

        visit_Continue = visit_Break

        def visit_Return(self, node):
            raise Unsupported(f'{fname}: return in cut loop {k}')

        def visit_Yield(self, node):
            raise Unsupported(f'{fname}: yield in cut loop {k}')

        visit_YieldFrom = visit_Yield

        def visit_FunctionDef(self, node):
            pass

        def visit_Lambda(self, node):
            pass

    v = V()
    for s in stmts:
        v.visit(s)


def _call(method, k):
    return ast.Call(
        func=ast.Attribute(value=ast.Name(id='__vc', ctx=ast.Load()),
                           attr=method, ctx=ast.Load()),
        args=[ast.Constant(k),
              ast.Call(func=ast.Name(id='locals', ctx=ast.Load()),
                       args=[], keywords=[])],
        keywords=[])


class _Cutter(ast.NodeTransformer):
    def __init__(self, fname, loops):
        self.fname = fname
        self.loops = loops          # ordinal -> declared names (set)
        self.ordinal = -1
        self.cut = dict()           # ordinal -> stored names (sorted)
        self.in_nested = 0

    def _havoc_assign(self, k, names):
        if not names:
            return ast.Expr(_call('havoc', k))
        tgt = ast.Tuple(
            elts=[ast.Name(id=n, ctx=ast.Store()) for n in names],
            ctx=ast.Store())
        return ast.Assign(targets=[tgt], value=_call('havoc', k))

    def visit_While(self, node):
        self.ordinal += 1
        k = self.ordinal
        self.generic_visit(node)
        if k not in self.loops:
            return node
        if node.orelse:
            raise Unsupported(f'{self.fname}: else clause on cut loop {k}')
        _check_body(node.body, self.fname, k)
        names = sorted(_stored_names(node.body))
        self.cut[k] = names
        new = [
            ast.Expr(_call('entry', k)),
            self._havoc_assign(k, names),
            ast.If(test=node.test,
                   body=list(node.body) + [ast.Expr(_call('back', k))],
                   orelse=[])]
        return new

    def visit_For(self, node):
        self.ordinal += 1
        k = self.ordinal
        self.generic_visit(node)
        if k not in self.loops:
            return node
        if node.orelse:
            raise Unsupported(f'{self.fname}: else clause on cut loop {k}')
        _check_body(node.body, self.fname, k)
        names = sorted(_stored_names(node.body) | _stored_names([node.target]))
        self.cut[k] = names
        it_call = _call('for_entry', k)
        it_call.args.append(node.iter)
        new = [
            ast.Expr(it_call),
            self._havoc_assign(k, names),
            ast.If(test=_call('for_more', k),
                   body=[ast.Assign(targets=[node.target],
                                    value=_call('for_item', k))]
                   + list(node.body) + [ast.Expr(_call('back', k))],
                   orelse=[])]
        return new


def extract(func, loops=None, overrides=None, vc=None, module_overrides=None):
    """Re-compile `func` from its current source.

    @param loops: dict ordinal -> anything (only keys are used here)
    @param overrides: dict global-name -> replacement (stubs)
    @param module_overrides: dict module-alias -> dict attr -> replacement
    @return: (function, info) where info has `source_lines`, `cut` (ordinal ->
        stored names) and `dropped`
    """
    loops = dict(loops or {})
    func = inspect.unwrap(func)
    if isinstance(func, (staticmethod, classmethod)):
        func = func.__func__
    src = textwrap.dedent(inspect.getsource(func))
    tree = ast.parse(src)
    fdef = tree.body[0]
    if not isinstance(fdef, (ast.FunctionDef,)):
        raise Unsupported(f'{func.__qualname__}: not a plain function')
    fdef.decorator_list = []
    cutter = _Cutter(func.__qualname__, loops)
    fdef.body = [cutter.visit(s) for s in fdef.body]
    # flatten lists produced by the transformer at top level
    flat = list()
    for s in fdef.body:
        if isinstance(s, list):
            flat.extend(s)
        else:
            flat.append(s)
    fdef.body = flat
    missing = set(loops) - set(cutter.cut)
    if missing:
        raise Unsupported(
            f'{func.__qualname__}: no loop with ordinal(s) {sorted(missing)} '
            f'(found {cutter.ordinal + 1} loops)')
    ast.fix_missing_locations(tree)
    ns = dict(func.__globals__)
    for alias, d in (module_overrides or {}).items():
        if alias not in ns:
            raise Unsupported(
                f'{func.__qualname__}: module alias `{alias}` not in its globals')
        ns[alias] = ModuleProxy(ns[alias], d)
    for name, repl in (overrides or {}).items():
        if name not in ns:
            raise Unsupported(
                f'{func.__qualname__}: global `{name}` not in its namespace')
        ns[name] = repl
    ns['__vc'] = vc
    rewrote_super = False
    # zero-argument `super()` needs the `__class__` cell: rewrite it to the
    # explicit two-argument form with the owning class (resolved by qualname)
    if func.__code__.co_freevars:
        if func.__code__.co_freevars != ('__class__',):
            raise Unsupported(f'{func.__qualname__}: closures not supported')
        owner = func.__globals__
        obj = None
        for part in func.__qualname__.split('.')[:-1]:
            obj = owner[part] if obj is None else getattr(obj, part)
        if obj is None or not fdef.args.args:
            raise Unsupported(f'{func.__qualname__}: cannot resolve owning class')
        first = fdef.args.args[0].arg
        for node in ast.walk(tree):
            if (isinstance(node, ast.Call) and isinstance(node.func, ast.Name)
                    and node.func.id == 'super' and not node.args):
                node.args = [ast.Name(id='__ovc_class', ctx=ast.Load()),
                             ast.Name(id=first, ctx=ast.Load())]
        ast.fix_missing_locations(tree)
        ns['__ovc_class'] = obj
        rewrote_super = True
    code = compile(tree, f'<ovc:{func.__module__}.{func.__qualname__}>', 'exec')
    exec(code, ns)
    new = ns[fdef.name]
    # a stub for the function's own name (recursive call by contract)
    if overrides and fdef.name in overrides:
        ns[fdef.name] = overrides[fdef.name]
    info = dict(
        function=f'{func.__module__}.{func.__qualname__}',
        source_lines=len(src.splitlines()),
        cut={k: v for k, v in cutter.cut.items()},
        n_loops=cutter.ordinal + 1,
        dropped=('back edges of loops ' + str(sorted(cutter.cut)) if cutter.cut
                 else 'nothing') + ('; zero-argument super() rewritten to '
                                    'super(<owning class>, self)' if rewrote_super else ''))
    return new, info


class Poison:
    """Value of a loop-carried local that the sidecar does not declare."""

    def __init__(self, what):
        object.__setattr__(self, '_what', what)

    def _no(self, *a, **k):
        raise Unsupported(
            f'{object.__getattribute__(self, "_what")} is read before being '
            'assigned in the cut loop body but is not declared in the sidecar')
    __getattr__ = __call__ = __bool__ = __eq__ = __ne__ = __and__ = _no
    __or__ = __invert__ = __iter__ = __len__ = __getitem__ = __hash__ = _no
    __rand__ = __ror__ = __xor__ = __rxor__ = __str__ = __repr__ = _no


class LoopVC:
    """Run-time side of the cut: proves / assumes invariants.

    `specs[k]` has:
      vars:  dict name -> maker(world, L) returning the havoc'd value
      inv:   callable(L: dict) -> z3 formula or list of (label, formula)
      for_item (for loops): maker(world, L) of the loop target value
      for_more (for loops): callable(world, L) -> bool/SymBool "another item exists"
    """

    def __init__(self, world, fname, specs):
        self.world = world
        self.fname = fname
        self.specs = specs
        self.reached = set()

    def _inv(self, k, L):
        r = self.specs[k]['inv'](L)
        if isinstance(r, list):
            return r
        return [('inv', r)]

    def entry(self, k, L):
        self.reached.add(k)
        for label, f in self._inv(k, dict(L)):
            self.world.oblige(
                f'{self.fname}.loop{k}.{label}.establish', f, kind='loop')

    def for_entry(self, k, L, iterable):
        self._iter = iterable
        self.entry(k, dict(L, __iter=iterable))

    def havoc(self, k, L):
        spec = self.specs[k]
        L = dict(L)
        names = spec['names']
        new = dict()
        for n in names:
            if n in spec['vars']:
                new[n] = spec['vars'][n](self.world, L)
            else:
                # a local the sidecar does not know (e.g. introduced by a
                # refactoring): sound as long as the body assigns it before
                # reading it; any use of the poison value stops the check as
                # unsupported, never as proved
                new[n] = Poison(f'{self.fname}: loop {k} local `{n}`')
        L.update(new)
        # objects mutated in place by the loop body (e.g. `zk.append(z)`)
        for n, fn in spec.get('mutated', {}).items():
            fn(self.world, L)
        if hasattr(self, '_iter'):
            L['__iter'] = self._iter
        for label, f in self._inv(k, L):
            self.world.assume(f)
        return tuple(new[n] for n in names)

    def for_more(self, k, L):
        return self.specs[k]['for_more'](self.world, dict(L, __iter=self._iter))

    def for_item(self, k, L):
        return self.specs[k]['for_item'](self.world, dict(L, __iter=self._iter))

    def back(self, k, L):
        from ovc.engine import EndOfPath
        L = dict(L)
        if hasattr(self, '_iter'):
            L['__iter'] = self._iter
        for label, f in self._inv(k, L):
            self.world.oblige(
                f'{self.fname}.loop{k}.{label}.preserve', f, kind='loop')
        raise EndOfPath()
