"""Differential validation of assumption A1: `dd.autoref` and `dd.cudd` conform
to `SpecBDD` (the abstract manager every proof is stated against).

Random operation sequences over <= 6 bits; after every operation the truth
tables of all three managers' results are compared exhaustively.  A
disagreement is a BROKEN ASSUMPTION (checker problem, exit 3), never a
property violation.
"""
import itertools
import random

from ovc import specbdd


def _tt_spec(B, u, bits):
    import z3
    out = set()
    for vals in itertools.product([False, True], repeat=len(bits)):
        t = z3.substitute(u.t, *[(B.vars[b], z3.BoolVal(v)) for b, v in zip(bits, vals)])
        if z3.is_true(z3.simplify(t)):
            out.add(vals)
    return out


def _tt_real(bdd, u, bits):
    out = set()
    for d in bdd.pick_iter(u, care_vars=bits):
        out.add(tuple(bool(d[b]) for b in bits))
    return out


def run(seed, n_seq, n_ops, reorder=True):
    import dd.autoref as autoref
    managers = [('autoref', autoref.BDD())]
    try:
        import dd.cudd as cudd
        managers.append(('cudd', cudd.BDD()))
    except ImportError:
        pass
    rnd = random.Random(seed)
    bits = [f'b{i}' for i in range(6)]
    problems = list()
    n = 0
    for s in range(n_seq):
        B = specbdd.SpecBDD()
        reals = list()
        for name, m in managers:
            m = type(m)()
            m.declare(*bits)
            reals.append((name, m))
        B.declare(*bits)
        pool = [[B.var(b)] + [m.var(b) for _, m in reals] for b in bits[:4]]
        pool.append([B.true] + [m.true for _, m in reals])
        for k in range(n_ops):
            n += 1
            op = rnd.choice(['not', 'and', 'or', 'xor', '=>', '<=>', 'ite', 'exist', 'forall',
                             'rename', 'const', 'compose', 'cube', 'diff', 'count', 'support', 'gc'])
            a, b_, c = (rnd.choice(pool) for _ in range(3))
            try:
                if op == 'not':
                    res = [~x for x in a]
                elif op in ('and', 'or', 'xor', '=>', '<=>', 'diff'):
                    res = [B.apply(op, a[0], b_[0])] + [m.apply(op, x, y) for (_, m), x, y in zip(reals, a[1:], b_[1:])]
                elif op == 'ite':
                    res = [B.ite(a[0], b_[0], c[0])] + [m.ite(x, y, z) for (_, m), x, y, z in zip(reals, a[1:], b_[1:], c[1:])]
                elif op in ('exist', 'forall'):
                    qv = rnd.sample(bits, rnd.choice([0, 1, 2]))
                    f = (lambda mm, u: mm.exist(qv, u)) if op == 'exist' else (lambda mm, u: mm.forall(qv, u))
                    res = [f(B, a[0])] + [f(m, x) for (_, m), x in zip(reals, a[1:])]
                elif op == 'rename':
                    supp = sorted(B.support(a[0]))
                    free = [x for x in bits if x not in supp]
                    if not supp or not free:
                        continue
                    d = {supp[0]: free[0]}
                    res = [B.let(d, a[0])] + [m.let(d, x) for (_, m), x in zip(reals, a[1:])]
                elif op == 'const':
                    d = {rnd.choice(bits): rnd.choice([True, False])}
                    res = [B.let(d, a[0])] + [m.let(d, x) for (_, m), x in zip(reals, a[1:])]
                elif op == 'compose':
                    v = rnd.choice(bits)
                    res = [B.let({v: b_[0]}, a[0])] + [m.let({v: y}, x) for (_, m), x, y in zip(reals, a[1:], b_[1:])]
                elif op == 'cube':
                    d = {x: rnd.choice([True, False]) for x in rnd.sample(bits, 2)}
                    res = [B.cube(d)] + [m.cube(d) for _, m in reals]
                elif op == 'count':
                    nv = 6
                    cs = [B.count(a[0], nv)] + [int(m.count(x, nv)) for (_, m), x in zip(reals, a[1:])]
                    if len(set(cs)) != 1:
                        problems.append(dict(op='count', counts=cs, seq=s, step=k))
                    continue
                elif op == 'support':
                    # semantic support of dd must be within the syntactic support of SpecBDD
                    ss = B.support(a[0])
                    for (nm, m), x in zip(reals, a[1:]):
                        if not set(m.support(x)) <= set(ss):
                            problems.append(dict(op='support', manager=nm, real=sorted(m.support(x)), spec=sorted(ss)))
                    continue
                elif op == 'gc':
                    for nm, m in reals:
                        if hasattr(m, 'collect_garbage'):
                            m.collect_garbage()
                        if reorder and nm == 'autoref' and rnd.random() < 0.3:
                            import dd.autoref as ar
                            ar.reorder(m)
                    continue
            except Exception as e:
                problems.append(dict(op=op, error=repr(e)[:200], seq=s, step=k))
                continue
            pool.append(res)
            want = _tt_spec(B, res[0], bits)
            for (nm, m), x in zip(reals, res[1:]):
                if _tt_real(m, x, bits) != want:
                    problems.append(dict(op=op, manager=nm, seq=s, step=k, seed=seed))
            # earlier results keep their meaning (history independence of dd)
            old = rnd.choice(pool)
            want = _tt_spec(B, old[0], bits)
            for (nm, m), x in zip(reals, old[1:]):
                if _tt_real(m, x, bits) != want:
                    problems.append(dict(op='history:' + op, manager=nm, seq=s, step=k, seed=seed))
            if len(problems) > 5:
                return n, problems
    return n, problems
