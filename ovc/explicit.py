"""Explicit-state reference semantics (no BDD code, no omega code).

Used only in the CONCRETE world (replay of counter-models, bounded search,
run-time contract monitors): sets are Python sets of bit tuples.
State tuples are ordered  env bits + sys bits + const bits;
action tuples            env + sys + env' + sys' + const.
"""
import itertools


def tuples(n):
    return list(itertools.product([False, True], repeat=n))


class Game:
    def __init__(self, nx, ny, nc, E, S, moore, plus_one):
        self.nx, self.ny, self.nc = nx, ny, nc
        self.E, self.S = E, S            # sets of action tuples
        self.moore, self.plus_one = moore, plus_one
        self.X = tuples(nx)
        self.Y = tuples(ny)
        self.C = tuples(nc)
        self.states = [x + y + c for x in self.X for y in self.Y
                       for c in self.C]

    def body(self, x, y, xp, yp, c, T):
        a = x + y + xp + yp + c
        e = a in self.E
        s = a in self.S
        t = (xp + yp + c) in T
        if self.plus_one:
            return s and ((not e) or t)
        return (not e) or (s and t)

    def cpre(self, T):
        out = set()
        for st in self.states:
            x = st[:self.nx]
            y = st[self.nx:self.nx + self.ny]
            c = st[self.nx + self.ny:]
            if self.moore:
                ok = any(all(self.body(x, y, xp, yp, c, T) for xp in self.X)
                         for yp in self.Y)
            else:
                ok = all(any(self.body(x, y, xp, yp, c, T) for yp in self.Y)
                         for xp in self.X)
            if ok:
                out.add(st)
        return out

    def gfp(self, f):
        q = set(self.states)
        while True:
            n = f(q)
            if n == q:
                return q
            q = n

    def lfp(self, f):
        q = set()
        while True:
            n = f(q)
            if n == q:
                return q
            q = n

    def streett(self, holds, goals):
        """nu Z. /\\_j mu Y. \\/_k nu X. (h_k /\\ cpre X) \\/ cpre Y \\/ (g_j /\\ cpre Z)"""
        def FZ(Z):
            cz = self.cpre(Z)
            r = set(self.states)
            for g in goals:
                goal = g & cz

                def FY(Yset, goal=goal):
                    cy = self.cpre(Yset)
                    acc = set()
                    for h in holds:
                        acc |= self.gfp(
                            lambda Xs, h=h: (h & self.cpre(Xs)) | cy | goal)
                    return acc
                r &= self.lfp(FY)
            return r
        return self.gfp(FZ)

    def rabin(self, holds, goals):
        """mu Z. \\/_k nu Y. /\\_j mu X. (cpre X \\/ g_j) /\\ cpre Y /\\ (cpre Z \\/ h_k)"""
        def FZ(Z):
            cz = self.cpre(Z)
            r = set()
            for h in holds:
                g0 = cz | h

                def FY(Yset, g0=g0):
                    inside = self.cpre(Yset) & g0
                    acc = set(self.states)
                    for g in goals:
                        acc &= self.lfp(
                            lambda Xs, g=g: (self.cpre(Xs) | g) & inside)
                    return acc
                r |= self.gfp(FY)
            return r
        return self.lfp(FZ)
