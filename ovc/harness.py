"""Driver: verify one harness on one shape; replay counter-models concretely."""
import time
import traceback

from ovc import engine as eng
from ovc import worlds
from ovc import cutloops


N_RANDOM = 60


class Ctx:
    """What a harness gets: the world plus access to the functions under
    verification (cut + stubbed in the symbolic world, the unmodified real
    function in the concrete world)."""

    def __init__(self, world, params):
        self.w = world
        self.p = params
        self.functions = dict()

    def fn(self, func, loops=None, overrides=None, module_overrides=None,
           name=None):
        """Function to call: extracted+cut (symbolic) or real (concrete)."""
        if not self.w.symbolic:
            return func
        name = name or f'{func.__module__}.{func.__qualname__}'
        specs = dict(loops or {})
        vc = cutloops.LoopVC(self.w, name.split('.')[-1], specs)
        new, info = cutloops.extract(
            func, loops=specs, overrides=overrides,
            module_overrides=module_overrides, vc=vc)
        for k, names in info['cut'].items():
            specs[k]['names'] = names
            specs[k]['inplace'] = info.get('inplace', {}).get(k, [])
        info['stubs'] = sorted(
            list(overrides or {}) +
            [f'{a}.{n}' for a, d in (module_overrides or {}).items() for n in d])
        self.functions[name] = info
        return new

    def call(self, f, *args, allowed=None, label=None, **kw):
        """Call the code under verification; classify exceptions.

        `allowed(exc)` -> True if the contract's raises-clause admits it.
        """
        label = label or getattr(f, '__name__', 'call')
        try:
            return f(*args, **kw)
        except (eng.EndOfPath, eng.OutOfReach, eng.Unsupported,
                eng.PathBudget):
            raise
        except Exception as e:
            ok = bool(allowed(e)) if allowed is not None else False
            if self.w.symbolic:
                tb = traceback.extract_tb(e.__traceback__)
                where = f'{tb[-1].name}:{tb[-1].lineno}' if tb else '?'
                self.w.refusal(f'{label}.raises', e, ok, where)
            else:
                if not ok:
                    self.w.failed.append(dict(
                        name=f'{label}.raises',
                        witness=f'unexpected {e!r}'))
            raise eng.EndOfPath()


def _sym_refusal(world, name, exc, ok, where):
    replay = None
    if world._replayer is not None and not ok:
        inputs = list(world.inputs)
        replayer = world._replayer

        def replay(model):
            return replayer(model, inputs, name)
    rec = world.run.refusal(name, exc, ok)
    rec['where'] = where
    m = rec.pop('_model_obj', None)
    if m is not None and replay is not None:
        try:
            rec['replay'] = replay(m)
        except Exception as e:
            rec['replay'] = dict(outcome='replay-error', error=repr(e))
    return rec


worlds.SymWorld.refusal = _sym_refusal


def run_concrete(harness, shape, interp, params, kind, backend=None):
    cw = worlds.ConcreteWorld(shape, interp, kind, backend=backend)
    ctx = Ctx(cw, params)
    try:
        harness(ctx)
    except eng.EndOfPath:
        pass
    return cw


def verify(harness, shape, params=None, kind='automaton', seed=0,
           n_random=None):
    """Explore `harness` symbolically on `shape`.

    Returns dict(records=[...], stats={...}, functions={...}).
    """
    params = dict(params or {})
    if n_random is None:
        n_random = N_RANDOM
    functions = dict()
    instances = list()
    completed = [0]

    def replayer(model, inputs, name):
        t0 = time.time()
        interp = worlds.interp_from_model(model, inputs)
        cw = run_concrete(harness, shape, interp, params, kind)
        if cw.failed:
            return dict(outcome='violates', source='solver-model',
                        failed=cw.failed, inputs=cw.inputs_concrete,
                        checked=cw.checked, seconds=round(time.time() - t0, 3))
        # bounded search for a failing input of the same shape
        for i in range(n_random):
            interp = worlds.interp_random(seed * 1000 + i)
            cw = run_concrete(harness, shape, interp, params, kind)
            if cw.failed:
                return dict(outcome='violates', source=f'random-search#{i}',
                            failed=cw.failed, inputs=cw.inputs_concrete,
                            checked=cw.checked,
                            seconds=round(time.time() - t0, 3))
        return dict(outcome='no-failing-input-found',
                    tried=1 + n_random, seconds=round(time.time() - t0, 3))

    def h(run):
        w = worlds.SymWorld(run, shape, kind)
        w._replayer = replayer
        ctx = Ctx(w, params)
        try:
            harness(ctx)
            completed[0] += 1
        finally:
            functions.update(ctx.functions)
            inst = getattr(ctx, 'instances', None)
            if inst:
                instances[:] = list(inst)

    t0 = time.time()
    try:
        records, stats = eng.explore(h)
        guessed = [k for k, v in functions.items() if v.get('renamed')]
        if guessed and any(r['status'] == 'refuted' and (r.get('replay') or {}).get('outcome') != 'violates'
                           for r in records if r['kind'] != 'canary'):
            # obligations generated under a GUESSED mapping of renamed locals that
            # fail without a failing input say nothing about the code
            raise eng.Unsupported(f'locals of {guessed} were renamed positionally and the proof does not go '
                                  'through under that mapping (mapping uncertain)')
        if completed[0] == 0 and not any(r['status'] == 'refuted' for r in records):
            # vacuity guard: every path ended at a loop cut (or was infeasible),
            # so no postcondition of the harness was ever stated
            raise eng.Unsupported('no path reaches the end of the contract harness '
                                  '(every path ends at a cut back edge)')
    except (eng.Unsupported, eng.OutOfReach) as e:
        # The code no longer has the shape the sidecar's proof is written for,
        # so no verdict can be DEDUCED.  Before giving up (exit 3), evaluate the
        # contract's postconditions on the real code over a bounded family of
        # concrete inputs of the same shape: a failing input is a violation
        # that needs no proof; finding none leaves the check undecided.
        for i in range(3 * n_random):
            interp = worlds.interp_random(seed * 1000 + i)
            try:
                cw = run_concrete(harness, shape, interp, params, kind)
            except Exception:
                break
            if cw.failed:
                rec = dict(
                    name=cw.failed[0]['name'], kind='post', status='refuted',
                    seconds=0.0, backend='-', n_assumptions=0, path=[],
                    goal='contract postcondition evaluated on the real code '
                         f'(deductive proof not applicable: {e})',
                    model=None,
                    replay=dict(outcome='violates',
                                source=f'bounded-search#{i} (proof not applicable)',
                                failed=cw.failed, inputs=cw.inputs_concrete,
                                checked=cw.checked))
                return dict(records=[rec], functions=functions,
                            stats=dict(paths=0, solver_s=0.0,
                                       wall_s=round(time.time() - t0, 3)))
        else:
            # nothing fails: the family is DOWNGRADED to a bounded check for
            # this run (reported, never counted as proved)
            return dict(records=[], functions=functions,
                        stats=dict(paths=0, solver_s=0.0,
                                   wall_s=round(time.time() - t0, 3)),
                        downgraded=f'{type(e).__name__}: {e}',
                        bounded=dict(evaluations=3 * n_random, failures=[],
                                     what='contract postconditions evaluated on the real code over seeded '
                                          'random inputs of the same shape (deductive proof not applicable '
                                          f'to the current source: {e})'))
        raise
    stats['wall_s'] = round(time.time() - t0, 3)
    return dict(records=records, stats=stats, functions=functions,
                instances=instances)


def sweep(harness, shape, params=None, kind='automaton', seed=0, n=20,
          backend=None):
    """BOUNDED: run the contract harness on the REAL dd manager (`backend`:
    None = the default one, i.e. dd.cudd when installed; 'autoref') with `n`
    seeded random interpretations of its input predicates, evaluating the
    postconditions on the unmodified real code.  Covers back-end specific
    branches that the abstract manager cannot take."""
    params = dict(params or {})

    def run():
        fails = list()
        checked = 0
        for i in range(n):
            interp = worlds.interp_random(seed * 7919 + i)
            try:
                cw = run_concrete(harness, shape, interp, params, kind, backend)
            except Exception as e:
                fails.append(dict(name='contract harness runs on the real manager',
                                  error=repr(e)[:300]))
                continue
            checked += len(cw.checked)
            for f in cw.failed[:2]:
                f = dict(f)
                f['inputs'] = cw.inputs_concrete
                fails.append(f)
        return dict(records=[], stats=dict(), functions=dict(), bounded=dict(
            evaluations=n, postconditions_evaluated=checked,
            backend=backend or 'default (dd.cudd if installed)',
            failures=fails[:6]))
    return run
