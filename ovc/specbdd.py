"""SpecBDD: the assumed contract of the `dd` BDD manager, as a symbolic store.

Nodes are z3 Bool terms over one Bool constant per declared bit.
Uninterpreted predicates are z3 functions applied to bit constants.
Quantifiers are expanded over the bit's two values (results stay
quantifier-free).  `u == v` between nodes means "denote the same Boolean
function" and yields a `SymBool` that the engine decides / forks on.

This class is TRUSTED (assumption A1): it states what `omega` assumes of
`dd.autoref.BDD` / `dd.cudd.BDD`.  `ovc.ddcheck` validates it differentially
against both real managers.
"""
import z3

from ovc import engine as _eng


_OPS1 = {'not', '!', '~'}
_AND = {'and', '&', '/\\', '&&'}
_OR = {'or', '|', '\\/', '||'}
_XOR = {'xor', '^', '#'}
_IMP = {'implies', '=>', '->'}
_EQV = {'equiv', '<=>', '<->'}
_DIFF = {'diff', '-'}
_ALL = {'\\A', 'forall'}
_EX = {'\\E', 'exists'}


class _Opaque:
    def __init__(self, what):
        self.what = what

    def _no(self, *a, **k):
        raise _eng.OutOfReach(
            f'structural attribute `{self.what}` of a SpecBDD node')
    __str__ = __repr__ = __eq__ = __hash__ = __bool__ = _no


class SNode:
    """Reference to a Boolean function held in a `SpecBDD`."""

    __slots__ = ('bdd', 't', '_id', '__weakref__')

    def __init__(self, bdd, t):
        self.bdd = bdd
        self.t = t
        self._id = None

    # ---- identity
    def _nid(self):
        if self._id is None:
            self._id = self.bdd._intern(self.t)
        return self._id

    def __int__(self):
        return self._nid()

    def __str__(self):
        return f'@{self._nid()}'

    def __repr__(self):
        return f'SNode(@{self._nid()})'

    def __hash__(self):
        return self._nid()

    # ---- semantic comparison
    def __eq__(self, other):
        if not isinstance(other, SNode):
            return False
        assert other.bdd is self.bdd
        return self.bdd._equiv(self, other)

    def __ne__(self, other):
        if not isinstance(other, SNode):
            return True
        return _eng.SymBool(z3.Not(self.bdd._equiv(self, other).t))

    def __le__(self, other):
        b = self.bdd
        return _eng.SymBool(b.valid(z3.Implies(self.t, other.t)))

    def __ge__(self, other):
        return other.__le__(self)

    def __lt__(self, other):
        b = self.bdd
        return _eng.SymBool(z3.And(
            b.valid(z3.Implies(self.t, other.t)),
            z3.Not(b.valid(self.t == other.t))))

    def __gt__(self, other):
        return other.__lt__(self)

    # ---- operators
    def __invert__(self):
        return self.bdd._mk(z3.Not(self.t))

    def __and__(self, o):
        return self.bdd._mk(z3.And(self.t, o.t))

    def __or__(self, o):
        return self.bdd._mk(z3.Or(self.t, o.t))

    def __xor__(self, o):
        return self.bdd._mk(z3.Xor(self.t, o.t))

    def implies(self, o):
        return self.bdd._mk(z3.Implies(self.t, o.t))

    def equiv(self, o):
        return self.bdd._mk(self.t == o.t)

    def let(self, **defs):
        return self.bdd.let(defs, self)

    def exist(self, *qvars):
        return self.bdd.exist(qvars, self)

    def forall(self, *qvars):
        return self.bdd.forall(qvars, self)

    @property
    def support(self):
        return self.bdd.support(self)

    @property
    def node(self):
        return self

    @property
    def negated(self):
        raise _eng.OutOfReach('structural attribute `negated` of a SpecBDD node')

    @property
    def var(self):
        # `omega` only tests for the presence of this attribute (duck typing
        # of BDD nodes); its value is structural and not available here
        return _Opaque('var')

    @property
    def low(self):
        raise _eng.OutOfReach('structural attribute `low` of a SpecBDD node')

    @property
    def high(self):
        raise _eng.OutOfReach('structural attribute `high` of a SpecBDD node')

    @property
    def dag_size(self):
        return 1

    def __len__(self):
        return 1


def _consts(t, acc=None, seen=None):
    """Set of names of 0-ary Bool constants occurring in term `t`."""
    if acc is None:
        acc = set()
        seen = set()
    stack = [t]
    while stack:
        u = stack.pop()
        i = u.get_id()
        if i in seen:
            continue
        seen.add(i)
        if z3.is_quantifier(u):
            stack.append(u.body())
            continue
        if z3.is_var(u):
            continue
        if z3.is_const(u):
            if u.decl().kind() == z3.Z3_OP_UNINTERPRETED:
                acc.add(u.decl().name())
            continue
        stack.extend(u.children())
    return acc


class SpecBDD:
    """Abstract BDD manager."""

    def __init__(self):
        self.vars = dict()       # bit name -> z3 const (insertion ordered)
        self._ids = dict()       # z3 ast id -> node id
        self._terms = dict()     # node id -> z3 term
        self._next = 2           # numerals 0 and 1 are FALSE / TRUE in prefix syntax
        self.npred = 0
        self.ops = 0

    # ---- construction
    def _mk(self, t):
        self.ops += 1
        return SNode(self, t)

    def _intern(self, t):
        t = z3.simplify(t)
        k = t.get_id()
        r = self._ids.get(k)
        if r is None:
            r = self._next
            self._next += 1
            self._ids[k] = r
            self._terms[r] = t
        return r

    def _add_int(self, n):
        n = int(n)
        if n not in self._terms:
            raise ValueError(f'no node with identifier {n}')
        return SNode(self, self._terms[n])

    def add_var(self, name, index=None):
        if name not in self.vars:
            self.vars[name] = z3.Bool(name)
        return len(self.vars) - 1

    def declare(self, *names):
        for n in names:
            self.add_var(n)

    def var(self, name):
        if name not in self.vars:
            raise ValueError(f'undeclared variable "{name}"')
        return self._mk(self.vars[name])

    def __contains__(self, u):
        return isinstance(u, SNode) and u.bdd is self

    def __len__(self):
        return len(self._terms)

    @property
    def true(self):
        return SNode(self, z3.BoolVal(True))

    @property
    def false(self):
        return SNode(self, z3.BoolVal(False))

    def predicate(self, name, bits):
        """Uninterpreted predicate over the listed bits (ghost input)."""
        bits = list(bits)
        for b in bits:
            assert b in self.vars, b
        self.npred += 1
        if not bits:
            return self._mk(z3.Bool(f'{name}!p'))
        f = z3.Function(name, *([z3.BoolSort()] * len(bits)), z3.BoolSort())
        return self._mk(f(*[self.vars[b] for b in bits]))

    # ---- semantic helpers
    def allbits(self):
        return list(self.vars.values())

    def valid(self, t):
        """z3 formula `for all values of all declared bits, t`."""
        used = _consts(t)
        qs = [c for n, c in self.vars.items() if n in used]
        from ovc import spec as _spec
        return _spec.forall(qs, t)

    def _equiv(self, u, v):
        if z3.eq(u.t, v.t):
            return _eng.SymBool(z3.BoolVal(True))
        return _eng.SymBool(self.valid(u.t == v.t))

    # ---- operators
    def apply(self, op, u, v=None, w=None):
        if op in _OPS1:
            assert v is None and w is None
            return ~u
        if op == 'ite':
            return self.ite(u, v, w)
        assert v is not None, op
        assert w is None, op
        if op in _AND:
            return u & v
        if op in _OR:
            return u | v
        if op in _XOR:
            return u ^ v
        if op in _IMP:
            return u.implies(v)
        if op in _EQV:
            return u.equiv(v)
        if op in _DIFF:
            return u & ~v
        if op in _ALL:
            return self.forall(self._cube_vars(u), v)
        if op in _EX:
            return self.exist(self._cube_vars(u), v)
        raise ValueError(f'unknown operator "{op}"')

    def _cube_vars(self, u):
        return self.support(u)

    def ite(self, g, u, v):
        return self._mk(z3.If(g.t, u.t, v.t))

    def cube(self, dvars):
        if isinstance(dvars, dict):
            items = list(dvars.items())
        else:
            items = [(k, True) for k in dvars]
        lits = list()
        for k, val in items:
            if k not in self.vars:
                raise ValueError(f'undeclared variable "{k}"')
            c = self.vars[k]
            val = _eng.concretize_bool(val)
            lits.append(c if val else z3.Not(c))
        return self._mk(z3.And(*lits) if lits else z3.BoolVal(True))

    def support(self, u):
        names = _consts(u.t)
        return {n for n in names if n in self.vars}

    def _q(self, qvars, u, forall):
        t = u.t
        present = _consts(t)
        for name in qvars:
            if name not in self.vars:
                raise ValueError(f'undeclared variable "{name}"')
            if name not in present:
                continue
            c = self.vars[name]
            t1 = z3.substitute(t, (c, z3.BoolVal(True)))
            t0 = z3.substitute(t, (c, z3.BoolVal(False)))
            t = z3.And(t1, t0) if forall else z3.Or(t1, t0)
        return self._mk(t)

    def exist(self, qvars, u):
        return self._q(list(qvars), u, False)

    def forall(self, qvars, u):
        return self._q(list(qvars), u, True)

    def quantify(self, u, qvars, forall=False):
        return self._q(list(qvars), u, forall)

    def let(self, defs, u):
        if not defs:
            return u
        pairs = list()
        for k, v in defs.items():
            if k not in self.vars:
                raise ValueError(f'undeclared variable "{k}"')
            c = self.vars[k]
            if isinstance(v, SNode):
                pairs.append((c, v.t))
            elif isinstance(v, str):
                if v not in self.vars:
                    raise ValueError(f'undeclared variable "{v}"')
                pairs.append((c, self.vars[v]))
            else:
                v = _eng.concretize_bool(v)
                pairs.append((c, z3.BoolVal(bool(v))))
        # simultaneous substitution
        return self._mk(z3.substitute(u.t, *pairs))

    # no `rename`: the installed dd managers do not have it (the abstract manager
    # offers nothing the real ones lack)

    def copy(self, u, other):
        if other is self:
            return u
        raise _eng.OutOfReach('copy between managers')

    # ---- enumeration: only for closed (predicate-free) terms
    def _closed(self, u):
        fs = set()
        seen = set()
        stack = [u.t]
        while stack:
            x = stack.pop()
            if x.get_id() in seen:
                continue
            seen.add(x.get_id())
            if z3.is_app(x):
                d = x.decl()
                if d.kind() == z3.Z3_OP_UNINTERPRETED and (
                        d.arity() > 0 or d.name() not in self.vars):
                    fs.add(d.name())
                stack.extend(x.children())
        return not fs

    def pick_iter(self, u, care_vars=None):
        if not self._closed(u):
            raise _eng.OutOfReach('pick_iter over an uninterpreted predicate')
        supp = sorted(self.support(u))
        if care_vars is None:
            care = list(supp)
        else:
            care = sorted(set(care_vars) | set(supp))
        import itertools
        for vals in itertools.product([False, True], repeat=len(care)):
            d = dict(zip(care, vals))
            t = z3.substitute(
                u.t, *[(self.vars[k], z3.BoolVal(v)) for k, v in d.items()])
            if z3.is_true(z3.simplify(t)):
                yield d

    def pick(self, u, care_vars=None):
        return next(self.pick_iter(u, care_vars), None)

    def count(self, u, nvars=None):
        if not self._closed(u):
            raise _eng.OutOfReach('count over an uninterpreted predicate')
        supp = self.support(u)
        n = sum(1 for _ in self.pick_iter(u))
        if nvars is None:
            nvars = len(supp)
        assert nvars >= len(supp), (nvars, supp)
        return n * 2 ** (nvars - len(supp))

    def add_expr(self, e):
        import omega.symbolic.bdd as _sb
        return _sb.add_expr(e, self)

    def to_expr(self, u):
        return str(u)

    def level_of_var(self, name):
        return list(self.vars).index(name)

    def var_at_level(self, i):
        return list(self.vars)[i]

    def incref(self, u):
        pass

    def decref(self, u, **kw):
        pass

    def collect_garbage(self, *a, **kw):
        pass

    def configure(self, **kw):
        return dict(reordering=False)
