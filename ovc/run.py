"""Command line: `ovc check <ID> --tier quick|thorough`, `ovc replay <file>`.

Exit codes: 0 every obligation discharged and every bounded check passed;
1 violation (VIOLATION line printed); 2 undecided; 3 checker crash / broken
assumption / vacuity.  `unknown`, a timeout or a traceback is never mapped
to a violation.
"""
import argparse
import hashlib
import importlib
import json
import multiprocessing as mp
import os
import re
import sys
import time
import traceback

HERE = os.path.dirname(os.path.dirname(os.path.abspath(__file__)))
REPO = os.environ.get('OVC_REPO_ROOT', '/repo')
# a run restricted to some families (development aid OVC_ONLY) is not a record of
# the check: it never writes into the committed evidence directory
OUT = os.environ.get('OVC_OUT_DIR') or (
    os.path.join(HERE, '.partial_out') if os.environ.get('OVC_ONLY') else HERE)


def _quiet():
    import logging
    import warnings
    logging.getLogger('omega').setLevel(logging.CRITICAL)
    logging.getLogger('astutils').setLevel(logging.CRITICAL)
    logging.getLogger('dd').setLevel(logging.CRITICAL)
    logging.disable(logging.WARNING)
    warnings.simplefilter('ignore')


def _logging_mode(family_name):
    """Results must not depend on the logging level: every second family (by a
    hash of its name; all of them with OVC_DEBUG_LOGGING=1, none with =0) runs
    with the `omega` loggers ENABLED at DEBUG level (records are discarded by a
    NullHandler), so that code under `log.isEnabledFor(DEBUG)` and the
    arguments of `log.debug(...)` are exercised too."""
    import logging
    mode = os.environ.get('OVC_DEBUG_LOGGING')
    on = (mode == '1') or (mode != '0' and hashlib.sha1(family_name.encode()).digest()[0] & 1)
    lg = logging.getLogger('omega')
    if on:
        logging.disable(logging.NOTSET)
        lg.setLevel(logging.DEBUG)
        lg.propagate = False
        if not any(isinstance(h, logging.NullHandler) for h in lg.handlers):
            lg.addHandler(logging.NullHandler())
        for name, sub in list(logging.root.manager.loggerDict.items()):
            if name.startswith('omega.') and isinstance(sub, logging.Logger):
                sub.setLevel(logging.NOTSET)
    else:
        lg.setLevel(logging.CRITICAL)
        logging.disable(logging.WARNING)
    return bool(on)


def _setup_path():
    if HERE not in sys.path:
        sys.path.insert(0, HERE)
    root = os.path.abspath(REPO)
    sys.path.insert(0, root)
    import omega
    got = os.path.dirname(os.path.dirname(os.path.abspath(omega.__file__)))
    if got != root:
        print(f'ovc: omega imported from {got}, expected {root}')
        sys.exit(3)


_FAMS = None


def _job(i):
    fam = _FAMS[i]
    t0 = time.time()
    from ovc import engine as _eng
    _eng.reset_ground_cache()
    debug_logging = _logging_mode(fam['name'])
    try:
        res = fam['run']()
        res.setdefault('records', [])
        res['crash'] = None
    except Exception as e:
        res = dict(records=[], stats=dict(), functions=dict(),
                   crash=''.join(traceback.format_exception(e))[-3000:],
                   crash_kind=type(e).__name__)
    res['family'] = fam['name']
    res['debug_logging'] = debug_logging
    res['label'] = fam.get('label', 'per-shape')
    res['wall_s'] = round(time.time() - t0, 3)
    return i, res


def _slug(s):
    h = hashlib.sha1(s.encode()).hexdigest()[:8]
    return re.sub(r'[^A-Za-z0-9]+', '_', s)[:60].strip('_') + '_' + h


def load_known(pid):
    path = os.path.join(HERE, 'known_findings.json')
    if not os.path.exists(path):
        return []
    with open(path) as f:
        data = json.load(f)
    return [e for e in data.get('findings', [])
            if e.get('property') == pid and e.get('status') == 'open']


def _known_match(entry, family, rec):
    m = entry.get('match', {})
    if 'obligation' in m and m['obligation'] not in rec['name']:
        return False
    if 'family' in m and not re.search(m['family'], family):
        return False
    if 'witness' in m:
        blob = json.dumps(rec, sort_keys=True, default=str)
        if m['witness'] not in blob:
            return False
    return True


def check(pid, tier, seed, jobs):
    global _FAMS
    t0 = time.time()
    mod = importlib.import_module(f'props.{pid}')
    fams = mod.families(tier, seed)
    only = os.environ.get('OVC_ONLY')      # development aid: restrict to families matching a regex
    if only:
        import re
        fams = [f for f in fams if re.search(only, f['name'])]
    _FAMS = fams
    results = [None] * len(fams)
    if jobs > 1 and len(fams) > 1:
        ctx = mp.get_context('fork')
        with ctx.Pool(min(jobs, len(fams))) as pool:
            for i, res in pool.imap_unordered(_job, range(len(fams))):
                results[i] = res
    else:
        for i in range(len(fams)):
            results[i] = _job(i)[1]
    # second pass: families with an undecided obligation (solver time-out, e.g.
    # on a loaded machine) are run again, few at a time, with a six-fold
    # solver budget; the second result replaces the first
    again = [i for i, r in enumerate(results)
             if not r.get('crash') and any(
                 rec['status'] in ('undecided', 'canary-unknown') for rec in r.get('records', []))]
    if again:
        from ovc import engine as _eng
        _eng.QUERY_TIMEOUT_MS *= 6
        _eng.DECIDE_TIMEOUT_MS *= 6
        retried = list()
        if jobs > 1 and len(again) > 1:
            ctx = mp.get_context('fork')
            with ctx.Pool(min(4, len(again))) as pool:
                for i, res in pool.imap_unordered(_job, again):
                    res['retried_with_longer_budget'] = True
                    results[i] = res
                    retried.append(i)
        else:
            for i in again:
                results[i] = _job(i)[1]
                results[i]['retried_with_longer_budget'] = True
        print(f'ovc: {len(again)} famil{"y" if len(again) == 1 else "ies"} with undecided obligations run again with a 6x solver budget')
    return report(pid, tier, seed, mod, results, time.time() - t0)


def report(pid, tier, seed, mod, results, wall):
    known = load_known(pid)
    rdir = os.path.join(OUT, 'replays', pid)
    violations = list()
    known_hits = list()
    undecided = list()
    crashes = list()
    vacuous = list()
    n_obl = n_dis = n_canary = n_refusal = 0
    n_bounded_eval = 0
    n_unbounded = n_pershape = 0
    backends = dict()
    solver_total = 0.0
    solver_max = 0.0
    functions = dict()
    samples = list()
    nonvac = dict()
    names_seen = dict()
    bounded_params = dict()
    bounded_parts = list()
    canaries = dict()
    downgraded = list()
    for res in results:
        fam = res['family']
        if res.get('crash'):
            crashes.append((fam, res['crash'], res.get('crash_kind')))
            continue
        for k, v in res.get('functions', {}).items():
            functions.setdefault(k, v)
        for k, v in (res.get('bounded_params') or {}).items():
            bounded_params.setdefault(k, v)
        if res.get('downgraded'):
            downgraded.append((fam, res['downgraded']))
        b = res.get('bounded')
        if b:
            n_bounded_eval += b.get('evaluations', 0)
            bounded_parts.append(dict(family=fam, **{
                k: v for k, v in b.items() if k != 'failures'}))
            for fail in b.get('failures', []):
                rec = dict(name=fail.get('name', 'bounded check'),
                           status='refuted', kind='bounded',
                           replay=dict(outcome='violates', failed=[fail],
                                       source='bounded check on the real code'))
                res['records'].append(rec)
        for rec in res['records']:
            st = rec['status']
            name = rec['name']
            solver_total += rec.get('seconds', 0.0)
            solver_max = max(solver_max, rec.get('seconds', 0.0))
            if rec['kind'] == 'canary':
                n_canary += 1
                if '(info)' not in name:
                    # a canary must be refuted on at least one path of its family
                    key = (fam, name)
                    cur = canaries.get(key)
                    rank = {'canary-refuted': 2, 'canary-unknown': 1,
                            'canary-proved': 0}[st]
                    if cur is None or rank > cur:
                        canaries[key] = rank
                continue
            if st == 'refusal-allowed':
                n_refusal += 1
                continue
            if rec['kind'] != 'bounded':
                n_obl += 1
                names_seen[name] = names_seen.get(name, 0) + 1
            if st == 'discharged':
                n_dis += 1
                if res['label'] == 'unbounded':
                    n_unbounded += 1
                else:
                    n_pershape += 1
                backends[rec['backend']] = backends.get(rec['backend'], 0) + 1
                a = rec.get('assumptions_sat', 'sat')
                if a == 'sat' or a.startswith('unsat(path infeasible'):
                    nonvac[name] = True
                else:
                    nonvac.setdefault(name, False)
                if len(samples) < 6 and rec['kind'] in ('post', 'loop'):
                    samples.append(dict(
                        family=fam, obligation=name, backend=rec['backend'],
                        seconds=rec['seconds'],
                        n_assumptions=rec['n_assumptions']))
            elif st == 'refuted':
                hit = None
                for e in known:
                    if _known_match(e, fam, rec):
                        hit = e
                        break
                if hit is not None:
                    known_hits.append((hit, fam, rec))
                else:
                    violations.append((fam, rec))
            elif st == 'undecided':
                undecided.append((fam, name))
    for (fam, name), rank in canaries.items():
        if rank == 0:
            vacuous.append((fam, name, 'canary proved'))
        elif rank == 1:
            undecided.append((fam, name))
    for name, ok in nonvac.items():
        if not ok:
            vacuous.append(('*', name, 'assumptions never satisfiable'))
    if n_obl == 0 and n_bounded_eval == 0 and not crashes:
        vacuous.append(('*', '*', 'zero obligations'))
    # ---- output
    seen_known = set()
    for e, fam, rec in known_hits:
        key = e.get('id', e.get('text'))
        if key in seen_known:
            continue
        seen_known.add(key)
        print(f'KNOWN-FINDING: property={pid} {e["text"]}')
    os.makedirs(rdir, exist_ok=True)
    printed = set()
    for fam, rec in violations:
        slug = _slug(f'{fam}|{rec["name"]}')
        path = os.path.join('replays', pid, slug + '.json')
        rp = rec.get('replay') or {}
        real = rp.get('outcome') == 'violates'
        with open(os.path.join(OUT, path), 'w') as f:
            json.dump(dict(
                property=pid, family=fam, failed_obligation=rec['name'],
                kind=rec['kind'], tier=tier, seed=seed,
                real_code_violates=real, replay=rp,
                solver=dict(backend=rec.get('backend'),
                            model=rec.get('model'), goal=rec.get('goal'),
                            path=rec.get('path')),
                how_to_replay=f'bin/ovc replay {path}'), f, indent=1,
                default=str)
        line = f'VIOLATION property={pid} replay={path}'
        if not real:
            line += ' no-failing-input-found'
        if line not in printed:
            printed.add(line)
            print(line)
            print(f'  family: {fam}\n  obligation: {rec["name"]}')
            if real:
                print(f'  real code fails: {json.dumps(rp.get("failed"), default=str)[:400]}')
    for fam, why in downgraded[:20]:
        print(f'DOWNGRADED property={pid} family={fam}: deductive proof not applicable to the current source '
              f'({why[:200]}); contract postconditions evaluated on the real code instead (bounded), all hold')
    for fam, name in undecided[:20]:
        print(f'UNDECIDED property={pid} family={fam} obligation={name}')
    for fam, tb, kind in crashes[:10]:
        print(f'CHECKER-PROBLEM property={pid} family={fam} ({kind})\n{tb}')
    for fam, name, why in vacuous[:20]:
        print(f'VACUITY property={pid} family={fam} obligation={name}: {why}')
    # ---- evidence
    level = mod.LEVEL
    cov = dict(
        obligations=n_obl, discharged=n_dis,
        checker_cmd=f'bin/ovc check {pid} --tier {tier}',
        trusted_base=list(getattr(mod, 'TRUSTED', [])),
        unbounded_proved=n_unbounded,
        proved_per_shape=n_pershape,
        bounded_parameters=bounded_params,
        bounded_evaluations=n_bounded_eval,
        bounded_parts=bounded_parts[:40],
        distinct_obligation_names=len(names_seen),
        canaries_refuted=n_canary - sum(
            1 for _, _, w in vacuous if w == 'canary proved'),
        refusal_paths_allowed=n_refusal,
        families=len(results),
        by_backend=backends,
        solver_seconds_total=round(solver_total, 3),
        solver_seconds_max=round(solver_max, 3),
        functions_under_contract=sorted(functions),
        extraction=[dict(function=k, lines=v.get('source_lines'),
                         loops_cut=v.get('cut'), dropped=v.get('dropped'),
                         callees_stubbed=v.get('stubs'))
                    for k, v in sorted(functions.items())],
        lemma_schema_instances=dict(total=sum(len(r.get('instances') or []) for r in results), sample=next((r['instances'][:12] for r in results if r.get('instances')), [])),
        slowest_families=sorted(((r.get('wall_s', 0), r['family']) for r in results), reverse=True)[:8],
        undecided=[f'{a}: {b}' for a, b in undecided][:50],
        downgraded_families=[dict(family=a, reason=b[:300], decided_by='bounded evaluation of the contract postconditions on the real code; not counted as proved') for a, b in downgraded][:50],
        known_findings_reported=sorted(seen_known),
        samples=samples or [dict(note='no sample collected')],
        explanation=getattr(mod, 'EXPLANATION', ''),
        evaluations=n_obl + n_bounded_eval,
        distinct_nontrivial=len(names_seen) + len(
            {p.get('family') for p in bounded_parts}),
        rule=getattr(mod, 'RULE', 'one evaluation per obligation sent to the '
                     'solver or per bounded case; distinct = distinct '
                     'obligation names + bounded families'),
        repo_root=REPO)
    extra = getattr(mod, 'coverage_extra', None)
    if extra is not None:
        cov.update(extra(results))
    ev = dict(property_id=pid, tier=tier, seed=seed, level=level,
              coverage=cov, assumptions=list(getattr(mod, 'ASSUMPTIONS', [])),
              wall_s=round(wall, 2), violations=len(violations))
    os.makedirs(os.path.join(OUT, 'evidence'), exist_ok=True)
    with open(os.path.join(OUT, 'evidence', f'{pid}.json'), 'w') as f:
        json.dump(ev, f, indent=1, default=str)
    print(f'ovc {pid} [{tier}]: families={len(results)} obligations={n_obl} '
          f'discharged={n_dis} (unbounded={n_unbounded}, per-shape={n_pershape}) '
          f'bounded-evals={n_bounded_eval} canaries={n_canary} '
          f'violations={len(violations)} known={len(seen_known)} '
          f'undecided={len(undecided)} downgraded={len(downgraded)} wall={wall:.1f}s')
    if violations:
        return 1
    if crashes or vacuous:
        return 3
    if undecided:
        return 2
    return 0


def replay(path):
    with open(path) as f:
        d = json.load(f)
    print(json.dumps({k: d[k] for k in (
        'property', 'family', 'failed_obligation', 'real_code_violates')},
        indent=1))
    pid = d['property']
    mod = importlib.import_module(f'props.{pid}')
    fams = mod.families(d.get('tier', 'quick'), d.get('seed', 0))
    for fam in fams:
        if fam['name'] == d['family']:
            res = fam['run']()
            bad = [r for r in res['records'] if r['status'] == 'refuted']
            for r in bad:
                print('FAILS AGAIN:', r['name'],
                      (r.get('replay') or {}).get('outcome'))
            for fl in (res.get('bounded') or {}).get('failures', []):
                bad.append(fl)
                print('FAILS AGAIN (bounded check on the real code):', fl.get('name'),
                      json.dumps({k: v for k, v in fl.items() if k != 'name'}, default=str)[:400])
            if not bad:
                print('no obligation of this family fails on the current tree')
            return 1 if bad else 0
    print('family not found')
    return 3


def main(argv=None):
    ap = argparse.ArgumentParser(prog='ovc')
    sub = ap.add_subparsers(dest='cmd', required=True)
    c = sub.add_parser('check')
    c.add_argument('pid')
    c.add_argument('--tier', default=os.environ.get('VERIF_TIER', 'quick'),
                   choices=['quick', 'thorough'])
    c.add_argument('--jobs', type=int,
                   default=int(os.environ.get('OVC_JOBS', '16')))
    r = sub.add_parser('replay')
    r.add_argument('path')
    args = ap.parse_args(argv)
    _setup_path()
    _quiet()
    seed = int(os.environ.get('VERIF_SEED', '0') or 0)
    if args.cmd == 'check':
        try:
            return check(args.pid, args.tier, seed, args.jobs)
        except SystemExit:
            raise
        except Exception:
            traceback.print_exc()
            return 3
    if args.cmd == 'replay':
        return replay(args.path)


if __name__ == '__main__':
    sys.exit(main())
