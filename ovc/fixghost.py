"""Ghost fixpoint sets and their lemma schemas (used by C01 / C04).

A ghost symbol here always DENOTES a specific, mathematically defined set
(the greatest / least fixpoint of a monotone operator built from contract-level
terms; it exists by Knaster-Tarski on the finite lattice of state sets --
assumption listed in the evidence).  Only TRUE facts about that set are ever
asserted: its fixpoint equation and explicitly requested *instances* of its
extremal property.  Hence every `unsat` derived with them is valid under the
intended interpretation.  Every instance is recorded in `log`.
"""
import z3

from ovc import spec


class GfpSet:
    """X denotes  nu X. (safe /\\ CPre X) \\/ unless   (the contract of `trap`)."""

    def __init__(self, w, cpre, tE, tS, safe, unless, X, log, name):
        self.w, self.cpre, self.tE, self.tS = w, cpre, tE, tS
        self.safe, self.unless, self.X = safe, unless, X
        self.log, self.name = log, name

    def F(self, Q):
        return z3.Or(z3.And(self.safe, self.cpre(self.tE, self.tS, Q)),
                     self.unless)

    def eq_fact(self):
        return spec.equiv(self.w, self.X, self.F(self.X))

    def greatest_at(self, Q, tag=''):
        """Instance of: every post-fixed point is below the gfp."""
        self.log.append(f'{self.name}.greatest at {tag}')
        w = self.w
        return z3.Implies(spec.subset(w, Q, self.F(Q)),
                          spec.subset(w, Q, self.X))


def ghost_gfp(w, cpre, tE, tS, safe, unless, name, log, assume=True):
    X = w.ghost(name, w.STATE)
    g = GfpSet(w, cpre, tE, tS, safe, unless, X, log, name)
    log.append(f'ghost {name} := nu X.(safe /\\ CPre X) \\/ unless')
    if assume:
        w.assume(g.eq_fact())
    return g


class LfpSet:
    """Y denotes  mu Y. \\/_k nu X. (h_k /\\ CPre X) \\/ CPre Y \\/ goal
    (the contract of `gr1._attractor_under_assumptions`)."""

    def __init__(self, w, cpre, tE, tS, holds, goal, Y, log, name):
        self.w, self.cpre, self.tE, self.tS = w, cpre, tE, tS
        self.holds, self.goal, self.Y = list(holds), goal, Y
        self.log, self.name = log, name

    def unless_of(self, P):
        return z3.Or(self.cpre(self.tE, self.tS, P), self.goal)

    def prefixed_at(self, k, Q, tag=''):
        """Instance of: GFP_k(CPre Y \\/ goal) <= Y, in the form
        'every post-fixed point Q of X -> (h_k /\\ CPre X) \\/ CPre Y \\/ goal
        is below Y'."""
        self.log.append(f'{self.name}.prefixed[{k}] at {tag}')
        w = self.w
        FQ = z3.Or(z3.And(self.holds[k], self.cpre(self.tE, self.tS, Q)),
                   self.unless_of(self.Y))
        return z3.Implies(spec.subset(w, Q, FQ), spec.subset(w, Q, self.Y))

    def least_at(self, P, gfps, tag=''):
        """Instance of: \\/_k GFP_k(CPre P \\/ goal) <= P  =>  Y <= P.

        `gfps[k]` must be a `GfpSet` (it then denotes a gfp by construction);
        the instance is guarded by semantic equality of its parameters with
        (h_k, CPre P \\/ goal).
        """
        self.log.append(f'{self.name}.least at {tag}')
        w = self.w
        assert len(gfps) == len(self.holds)
        guard = list()
        below = list()
        for k, g in enumerate(gfps):
            assert isinstance(g, GfpSet)
            guard.append(spec.equiv(w, g.safe, self.holds[k]))
            guard.append(spec.equiv(w, g.unless, self.unless_of(P)))
            below.append(spec.subset(w, g.X, P))
        return z3.Implies(z3.And(*(guard + below)),
                          spec.subset(w, self.Y, P))

    def same_as(self, other):
        """Congruence: equal parameters give the same least fixpoint."""
        w = self.w
        self.log.append(f'congruence {self.name} ~ {other.name}')
        guard = [spec.equiv(w, a, b)
                 for a, b in zip(self.holds, other.holds)]
        guard.append(spec.equiv(w, self.goal, other.goal))
        return z3.Implies(z3.And(*guard), spec.equiv(w, self.Y, other.Y))


def ghost_lfp(w, cpre, tE, tS, holds, goal, name, log):
    Y = w.ghost(name, w.STATE)
    log.append(f'ghost {name} := mu Y. \\/_k nu X.(h_k /\\ CPre X) \\/ CPre Y \\/ goal')
    return LfpSet(w, cpre, tE, tS, holds, goal, Y, log, name)


# ---------------------------------------------------------------------------
# Rabin(1) side

class LfpInside:
    """X denotes  mu X. (CPre X \\/ goal) /\\ inside   (contract of
    `gr1._attractor_inside`)."""

    def __init__(self, w, cpre, tE, tS, inside, goal, X, log, name):
        self.w, self.cpre, self.tE, self.tS = w, cpre, tE, tS
        self.inside, self.goal, self.X = inside, goal, X
        self.log, self.name = log, name

    def F(self, P):
        return z3.And(z3.Or(self.cpre(self.tE, self.tS, P), self.goal),
                      self.inside)

    def prefixed_fact(self):
        return spec.subset(self.w, self.F(self.X), self.X)

    def least_at(self, P, tag=''):
        self.log.append(f'{self.name}.least at {tag}')
        w = self.w
        return z3.Implies(spec.subset(w, self.F(P), P),
                          spec.subset(w, self.X, P))


def ghost_lfp_inside(w, cpre, tE, tS, inside, goal, name, log, assume=True):
    X = w.ghost(name, w.STATE)
    g = LfpInside(w, cpre, tE, tS, inside, goal, X, log, name)
    log.append(f'ghost {name} := mu X.(CPre X \\/ goal) /\\ inside')
    if assume:
        w.assume(g.prefixed_fact())
    return g


class CycSet:
    """Y denotes  nu Y. /\\_j mu X. (CPre X \\/ g_j) /\\ CPre Y /\\ g
    (contract of `gr1._cycle_inside`, with g = CPre z \\/ hold)."""

    def __init__(self, w, cpre, tE, tS, goals, g, Y, log, name):
        self.w, self.cpre, self.tE, self.tS = w, cpre, tE, tS
        self.goals, self.g, self.Y = list(goals), g, Y
        self.log, self.name = log, name

    def inside_of(self, Q):
        return z3.And(self.cpre(self.tE, self.tS, Q), self.g)

    def postfixed_at(self, j, P, tag=''):
        """Instance of: Y <= LFPI_j(CPre Y /\\ g), in the form 'Y is below every
        P closed under X -> (CPre X \\/ g_j) /\\ CPre Y /\\ g'."""
        self.log.append(f'{self.name}.postfixed[{j}] at {tag}')
        w = self.w
        FP = z3.And(z3.Or(self.cpre(self.tE, self.tS, P), self.goals[j]),
                    self.inside_of(self.Y))
        return z3.Implies(spec.subset(w, FP, P), spec.subset(w, self.Y, P))

    def greatest_at(self, Q, lfps, tag=''):
        """Instance of: (/\\_j Q <= LFPI_j(CPre Q /\\ g)) => Q <= Y, guarded by
        the parameters of the supplied ghost least fixpoints."""
        self.log.append(f'{self.name}.greatest at {tag}')
        w = self.w
        assert len(lfps) == len(self.goals)
        guard, below = list(), list()
        for j, lf in enumerate(lfps):
            assert isinstance(lf, LfpInside)
            guard.append(spec.equiv(w, lf.goal, self.goals[j]))
            guard.append(spec.equiv(w, lf.inside, self.inside_of(Q)))
            below.append(spec.subset(w, Q, lf.X))
        return z3.Implies(z3.And(*(guard + below)),
                          spec.subset(w, Q, self.Y))

    def same_as(self, other):
        w = self.w
        self.log.append(f'congruence {self.name} ~ {other.name}')
        guard = [spec.equiv(w, a, b) for a, b in zip(self.goals, other.goals)]
        guard.append(spec.equiv(w, self.g, other.g))
        return z3.Implies(z3.And(*guard), spec.equiv(w, self.Y, other.Y))


def ghost_cyc(w, cpre, tE, tS, goals, g, name, log):
    Y = w.ghost(name, w.STATE)
    log.append(f'ghost {name} := nu Y. /\\_j mu X.(CPre X \\/ g_j) /\\ CPre Y /\\ g')
    return CycSet(w, cpre, tE, tS, goals, g, Y, log, name)
