"""Specification functions, written directly in z3.

These share no code with `omega`.  They are SPECIFICATION (reviewed against
properties.jsonl and doc/doc.md), not verified.
Quantifiers here are native z3 quantifiers (the implementation side, SpecBDD,
expands quantifiers) so the two sides do not share an encoding.
"""
import itertools
import os

import z3


EXPAND = os.environ.get('OVC_NATIVE_QUANT', '0') != '1'


def _expand(vs, t, conj):
    """Finite-domain expansion of a quantifier over Boolean constants `vs`."""
    vs = list(vs)
    if not vs:
        return t
    inst = list()
    for vals in itertools.product(
            (z3.BoolVal(False), z3.BoolVal(True)), repeat=len(vs)):
        inst.append(z3.substitute(t, *zip(vs, vals)))
    return z3.And(*inst) if conj else z3.Or(*inst)


def exists(vs, t):
    vs = list(vs)
    if not vs:
        return t
    if EXPAND:
        return _expand(vs, t, False)
    return z3.Exists(vs, t)


def forall(vs, t):
    vs = list(vs)
    if not vs:
        return t
    if EXPAND:
        return _expand(vs, t, True)
    return z3.ForAll(vs, t)


def subst(t, pairs):
    pairs = list(pairs)
    return z3.substitute(t, *pairs) if pairs else t


def primed(world, t):
    """`t` with every flexible unprimed bit replaced by its primed copy."""
    return subst(t, world.prime_map())


def unprimed(world, t):
    return subst(t, [(b, a) for a, b in world.prime_map()])


def cpre(world, E, S, T, moore, plus_one):
    """Controllable predecessor of state predicate `T` (z3 terms).

    body   = plus_one ?  S /\\ (E => T')  :  E => (S /\\ T')
    result = moore    ?  \\E y': \\A x': body  :  \\A x': \\E y': body
    quantification over *all* bit values of the primed variables.
    """
    Tp = primed(world, T)
    if plus_one:
        body = z3.And(S, z3.Implies(E, Tp))
    else:
        body = z3.Implies(E, z3.And(S, Tp))
    xp = world.zs(world.group("env'"))
    yp = world.zs(world.group("sys'"))
    if moore:
        return exists(yp, forall(xp, body))
    return forall(xp, exists(yp, body))


def image(world, source, action):
    """{ s : \\E s0: source(s0) /\\ action(s0, s) } over flexible bits."""
    cur = world.zs(world.group('env') + world.group('sys'))
    t = exists(cur, z3.And(action, source))
    return unprimed(world, t)


def subset(world, a, b):
    return world.valid(z3.Implies(a, b))


def equiv(world, a, b):
    return world.valid(a == b)
