"""C19 — steppers only take steps their actions allow and keep components isolated."""
from ovc import harness, shapes
from ovc.worlds import Shape
from contracts import steps_c as sc

LEVEL = 'other'
TRUSTED = [
    'SpecBDD; assumed contract of Context.pick (None iff empty, else an assignment over support + care_vars satisfying the predicate): its enumeration behaviour is covered by C07 (bounded)',
    'z3; CPython executes the re-extracted text',
]
ASSUMPTIONS = [
    'PROVED per shape, for all actions and initial predicates, every state of a value grid (min / mid / max of each variable): AutomatonStepper.step / init',
    'BOUNDED: name mangling (identifiers over a 3-letter alphabet up to length 3), assemblies of 2-3 stub machines, Scheduler / Component / EnumStrategyStepper, the real stepper on synthesized implementations',
    'requires of an assembly (stated, not enforced by the code): no visible identifier starts with "<component name>_", mangled hidden names of different components are distinct',
]
EXPLANATION = (
    'AutomatonStepper.step and init are re-extracted and run with an uninterpreted action, concrete states and pick replaced by its contract; the returned values are proved to satisfy the action '
    'and ValueError to be raised exactly when the action is disabled. String-level name mangling and assemblies are checked by exhaustive / seeded bounded runs.')
LEVEL_TEXT = 'Proof per shape for all actions of the stepper contract; bounded checks for name mangling, assemblies and auxiliary classes.'
DESIGN_REF = 'DESIGN.md section 3, C19'
LEVEL_NOTE = 'Trusted: SpecBDD, pick contract, z3. Bounded: mangling alphabet, assemblies, implementations.'
TECHNIQUE = 'contract on the real AutomatonStepper (native symbolic execution, pick by contract, z3) + bounded run-time contract evaluation'


def families(tier, seed):
    out = list()
    for sh in shapes.QUICK[:3] + ([shapes.EXTRA[0]] if tier == 'thorough' else []):
        for mealy in (False, True):
            out.append(dict(name=f'AutomatonStepper mealy_input={mealy} {sh.name}', run=sc.stepper_family(sh, mealy), label='per-shape'))
        out.append(dict(name=f'AutomatonStepper action ignoring one next value {sh.name}', run=sc.stepper_family(sh, False, True), label='per-shape'))
    out.append(dict(name='name mangling', run=sc.mangling_check(), label='bounded'))
    out.append(dict(name='assemblies', run=sc.assembly_check(seed, 6), label='bounded'))
    out.append(dict(name='assemblies of symbolic steppers (Moore and Mealy components)', run=sc.symbolic_assembly_check(), label='bounded'))
    out.append(dict(name='scheduler/component/enum stepper', run=sc.misc_check(), label='bounded'))
    out.append(dict(name='stepper on synthesized implementations', run=sc.stepper_on_implementations(seed, 12 if tier == 'quick' else 400), label='bounded'))
    from contracts import optdiff as _od
    out.append(dict(name='same results with assert statements stripped (python -O), section C19', run=_od.family('C19'), label='bounded'))
    return out


def coverage_extra(results):
    return dict(bounded_parameters=dict(declaration_shape='3 quick / 4 thorough', states='value grid min/mid/max',
                                        mangling='alphabet {a,b,_}, length <= 3'))
