"""C05 — synthesized Rabin(1) implementation (counter-strategy) realizes its condition."""
from ovc import harness, shapes
from contracts import gr1_transducers as gt
from contracts import gr1_monitor as gm
from contracts.gr1_init import QINITS

KIND = 'rabin'
LEVEL = 'other'
TRUSTED = [
    'SpecBDD (assumed dd contract); z3; CPython executes the re-extracted text',
    'lemma L2 (a play through a finite graph whose every step satisfies the rank conditions satisfies the liveness condition): assumed; liveness is only checked by the bounded monitor',
    'explicit-state closed-loop analysis (contracts/gr1_monitor.py) is specification',
]
ASSUMPTIONS = [
    'PROVED per shape, for all actions / liveness / initial predicates and all iterate predicates (lists of concrete length L = 2): step conformance, memory range under the environment action, Moore independence (semantic), initial condition, frame; _controllable_action exact',
    'closure / non-blocking are NOT proved for the Rabin construction: the monitor shows two genuine blocking defects (known findings), so no inductive invariant exists',
    'BOUNDED (seeded random games on the real dd manager, real solver and transducer): closed-loop conformance, ranges, non-blocking at every reachable state, liveness of every reachable cycle',
]
EXPLANATION = (
    'make_rabin_transducer is re-extracted and run on uninterpreted winning set, iterates, actions and initial predicates; clauses on single steps are proved for all data. '
    'Whole-history clauses (no reachable blocking state, liveness of infinite plays) are reduced to an inductive invariant proved under assumed iterate facts, and additionally '
    'checked by an explicit closed-loop monitor on seeded concrete games.')
LEVEL_TEXT = 'Proof of the per-step clauses for all data (per shape, iterate lists of fixed length); bounded closed-loop monitor for blocking, reachability and liveness (two known blocking findings are reported, any other failure is a violation).'
DESIGN_REF = 'DESIGN.md section 3, C02 / C05'
LEVEL_NOTE = 'Trusted: SpecBDD, z3, lemma L2. Bounded: iterate-list length, monitor games (seeded). Known findings: F3 and the stale persistence index (known_findings.json).'
TECHNIQUE = 'contracts on the real transducer construction (native symbolic execution + z3) and a bounded run-time contract monitor of the closed loop'


def _mk(name, h, sh, params):
    def run():
        return harness.verify(h, sh, params)
    return dict(name=name, run=run, label='per-shape')


def families(tier, seed):
    out = list()
    shs = shapes.QUICK[:3] if tier == 'quick' else shapes.family(tier, seed)[:7]
    for sh in shs:
        for moore, plus_one in shapes.MODES:
            mn = shapes.mode_name(moore, plus_one)
            combos = [(1, 2, QINITS[2]), (2, 1, QINITS[3])] if tier == 'quick' else \
                [(nh, ng, q) for (nh, ng) in ((1, 1), (1, 2), (2, 1), (2, 2)) for q in QINITS]
            if tier == 'quick' and sh is shs[0]:
                combos = [(1, 2, q) for q in QINITS] + [(2, 2, QINITS[2])]
            for nh, ng, q in combos:
                out.append(_mk(f'make_rabin_transducer holds={nh} goals={ng} L=2 qinit={q} {mn} {sh.name}',
                               gt.h_rabin_transducer, sh,
                               dict(moore=moore, plus_one=plus_one, n_holds=nh, n_goals=ng, L=2, T=2, qinit=q)))
        if tier != 'quick' and sh in shs[:2]:
            # longer iterate lists: three outer layers, three attractor layers, three goals
            for moore, plus_one in shapes.MODES:
                mn = shapes.mode_name(moore, plus_one)
                for nh, ng, L_, T_ in ((1, 1, 3, 3), (1, 3, 2, 2), (2, 1, 3, 2)):
                    out.append(_mk(f'make_rabin_transducer holds={nh} goals={ng} L={L_} T={T_} qinit={QINITS[2]} {mn} {sh.name}',
                                   gt.h_rabin_transducer, sh,
                                   dict(moore=moore, plus_one=plus_one, n_holds=nh, n_goals=ng, L=L_, T=T_, qinit=QINITS[2])))
    n = 120 if tier == 'quick' else 1500
    for i in range(8):
        out.append(dict(name=f'closed-loop monitor rabin games part {i}', run=gm.monitor('rabin', seed * 100 + i, n // 8, 'cudd'), label='bounded'))
    # deterministic witnesses of the two known findings (independent of VERIF_SEED)
    out.append(dict(name='closed-loop monitor rabin games: witness of known finding F3 (seed 1, games 1..10)', run=gm.monitor('rabin', 1, 10, 'cudd'), label='bounded'))
    out.append(dict(name='closed-loop monitor rabin games: witness of known finding stale-hold (seed 2, games 1..48)', run=gm.monitor('rabin', 2, 48, 'cudd'), label='bounded'))
    for i in range(4):
        out.append(dict(name=f'closed-loop monitor rabin games, implementation constructed again on the same automaton after its liveness lists changed length, part {i}',
                        run=gm.rebuild_same_automaton('rabin', seed * 100 + 70 + i, (60 if tier == 'quick' else 500), 'cudd' if i < 3 else 'autoref'), label='bounded'))
    out.append(dict(name='closed-loop monitor rabin games (autoref)', run=gm.monitor('rabin', seed * 100 + 50, n // 8, 'autoref'), label='bounded'))
    from contracts import optdiff as _od
    out.append(dict(name='same results with assert statements stripped (python -O), section C01', run=_od.family('C01'), label='bounded'))
    return out


def coverage_extra(results):
    built = sum((r.get('bounded') or {}).get('implementations_built', 0) for r in results)
    reach = sum((r.get('bounded') or {}).get('reachable_states', 0) for r in results)
    return dict(implementations_built=built, reachable_states_analysed=reach,
                bounded_parameters=dict(iterate_list_length='L = 2', declaration_shape='3 quick / 7 thorough',
                                        monitor_games='120 quick / 1500 thorough (seeded by VERIF_SEED)'))
