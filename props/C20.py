"""C20 — converting a labelled graph to logic yields exactly the transitions of the graph."""
from ovc import harness
from ovc.worlds import Shape
from contracts import logicizer as cl

LEVEL = 'proof'
TRUSTED = [
    'SpecBDD (assumed dd contract); the formula -> BDD pipeline Context.add_expr is executed in-line (its own contract: C06)',
    'ovc/denote.py gives the meaning of concrete label strings and numerals; z3; CPython executes the re-extracted text',
]
ASSUMPTIONS = [
    'bounded in the graph: hand-made corner cases (dead ends, multi-edges, gaps in node ids, single node, all-initial) plus seeded random graphs (<= 3 nodes quick, <= 4 thorough); '
    'per graph the proof is for ALL edge formulas (uninterpreted predicates over primed and unprimed bits) and all valuations',
    'node labels and assignment labels are concrete (the translator refuses to prime a BDD reference)',
    'receptive=True: the assumption added to the environment\'s action is read as "at each node with successors the environment part (edge formula, assignments to environment variables) of some outgoing edge\'s label holds" (docstring: prevent env from blocking sys); the property itself only says the action is then no longer unconstrained',
]
EXPLANATION = (
    'graph_to_logic is re-extracted and run on a concrete graph whose edge formulas are references to uninterpreted predicates; for each node u the '
    'resulting owner action is proved equivalent, under node = u, to "some edge out of u (or a self-loop) with its label, into a node whose label holds next"; '
    'initial condition, the other player\'s unconstrained action and the variable ownership lists are proved as stated in the property.')
LEVEL_TEXT = 'Deductive proof per graph for all edge formulas and all valuations; bounded in the graph shape.'
DESIGN_REF = 'DESIGN.md section 3, C20'
LEVEL_NOTE = 'Trusted: SpecBDD, denotation evaluator, z3. Bounded parameter: graph shape (family listed in the evidence).'
TECHNIQUE = 'contract on the real graph_to_logic with symbolic (uninterpreted) edge labels, VCs discharged by z3'


def families(tier, seed):
    out = list()
    for gi, gs in enumerate(cl.graph_family(tier, seed)):
        ids = sorted(gs['nodes'])
        dom = (min(ids), max(ids))
        for owner in ('sys', 'env'):
            env = dict(x='bool')
            sys_ = dict(y=(0, 2))
            (env if owner == 'env' else sys_)[cl.NODEVAR] = dom
            sh = Shape(env=env, sys=sys_, name=f'graph#{gi} nodes={ids} edges={len(gs["edges"])} owner={owner}')
            for self_loops in (False, True):
                for ign in (False, True):
                    for rec in ((False, True) if (owner == 'sys' and not ign) else (False,)):
                        params = dict(graph=gs, owner=owner, self_loops=self_loops,
                                      ignore_initial=ign, receptive=rec,
                                      positional=(gi % 2 == 1 and rec != self_loops),
                                      order=('largest-first' if gi % 3 == 0 else None),
                                      consistent=(gi % 2 == 0))

                        def run(sh=sh, params=params):
                            return harness.verify(cl.h_graph_to_logic, sh, params)
                        out.append(dict(
                            name=f'graph_to_logic {sh.name} self_loops={self_loops} ignore_initial={ign} receptive={rec}',
                            run=run, label='per-shape'))
    for be in ('cudd', 'autoref'):
        out.append(dict(name=f'graph converted again into the same automaton after it grew [{be}]', run=cl.second_conversion(be), label='bounded'))
    from contracts import optdiff as _od
    out.append(dict(name='same results with assert statements stripped (python -O), section C20', run=_od.family('C20'), label='bounded'))
    return out


def coverage_extra(results):
    return dict(bounded_parameters=dict(graph='finite family: 6 hand-made + seeded random graphs (quick 6, thorough 40); edge formulas symbolic'))
