"""C08 — a formula printed from a BDD is equivalent to it on the care set and re-parses"""
from ovc import harness
from ovc.worlds import Shape
from contracts import cover_c as cc_

LEVEL = 'other'
TRUSTED = [
    'explicit reference in contracts/cover_c.py (class Ref): boxes, maximal boxes and minimum covers enumerated in plain Python over the bit-range grid (specification)',
    'Context.assign_from / pick_iter / let / add_expr are used to build inputs and read results on the real manager (C06, C07)',
    'SpecBDD, ovc/denote.py, z3 for the proved lattice predicates',
]
ASSUMPTIONS = [
    'PROVED per shape (one 2-bit variable; two variables of 2 bits, one signed), for all predicates f, care and all sets of boxes: x_in_implicant, _orthotope_nonempty, _orthotope_singleton, subseteq, eq, implicants_intersect, embed_as_implicants, _implicant_orthotopes, prime_implicants (= maximal boxes), _concretize_implicants, _covers, _none_covered, setup_aux_vars frame, and the cover lemma',
    'BOUNDED: Context.to_expr / cover.minimize + dumps_cover on exhaustive / sampled small instances, all printing options except LaTeX: re-parse, agreement on the care set, disjunct-level conditions',
    'list_expr / _clip_subrange / _check_type_hint are exercised only through the bounded runs (enumeration + string formatting)',
]
EXPLANATION = (
    'The lattice predicates that the covering algorithm is built from are proved equal to their set-level definitions over boxes for all predicates; '
    'the printed formula itself (which depends on the branch-and-bound search and on enumeration) is validated on small instances against an explicit reference.')
LEVEL_TEXT = 'Proof per shape of the box-lattice predicates and the cover lemma for all predicates; bounded validation of the printed formula.'
DESIGN_REF = 'DESIGN.md section 3, C08'
LEVEL_NOTE = 'Trusted: SpecBDD, denotation, z3, explicit reference. Bounded: printed formulas (instances listed in evidence).'
TECHNIQUE = 'contracts on the real lattice-predicate functions (native symbolic execution + z3) and bounded run-time contract evaluation of to_expr'

WHAT = 'C08'
GRIDS_QUICK = [
    (dict(x=(0, 1), y=(0, 1)), 'all-care-hint', 0),
    (dict(x=(0, 1), y=(0, 1), z=(0, 1)), 'all-care-hint', 0),
    (dict(x=(0, 2), y=(0, 2)), 'all-care-hint', 70),
    (dict(x=(0, 3), y=(-2, 1)), 'random-care', 40),
    (dict(x=(-4, -1), y=(0, 1), z=(0, 1)), 'random-care', 30),
    (dict(x=(0, 4), y=(0, 2)), 'hint-narrow', 70),
    (dict(x=(-3, 1)), 'hint-narrow', 40),
    (dict(x=(0, 3), y=(1, 5)), 'hint-narrow', 56),
    (dict(x=(-4, -2), y=(0, 1)), 'hint-narrow', 42),
    # single-valued type hints (the variable still ranges over its bits)
    (dict(x=(3, 3), y=(0, 2)), 'hint-narrow', 36),
    (dict(x=(-2, -2), y=(0, 0)), 'hint-narrow', 27),
    (dict(x=(0, 1), y=(0, 1), z=(0, 1), w=(0, 1)), 'all-but-two', 0),
    (dict(x=(0, 1), y=(0, 1), z=(0, 1), w=(0, 2)), 'random-care', 24),
]
GRIDS_THOROUGH = [
    (dict(x=(0, 4), y=(0, 2)), 'hint-narrow', 600),
    (dict(x=(-5, -2), y=(1, 2)), 'hint-narrow', 300),
    (dict(x=(0, 1), y=(0, 1), z=(0, 1), w=(0, 1)), 'all-care-hint', 3000),
    (dict(x=(0, 2), y=(0, 2)), 'all-care-hint', 0),
    (dict(x=(0, 3), y=(-2, 1)), 'random-care', 600),
    (dict(x=(0, 3), y=(0, 3), z=(0, 1)), 'random-care', 300),
]


def families(tier, seed):
    out = list()
    for sh in (Shape(sys=dict(x=(0, 3)), name='x:0..3'), Shape(sys=dict(x=(0, 2), y=(-1, 1)), name='x:0..2 y:-1..1')):
        def run(sh=sh):
            return harness.verify(cc_.h_lattice, sh, {}, kind='context')
        out.append(dict(name=f'lattice predicates {sh.name}', run=run, label='per-shape'))
    grids = GRIDS_QUICK + (GRIDS_THOROUGH if tier == 'thorough' else [])
    for gi, (decl, mode, n) in enumerate(grids):
        for be in ('cudd',) + (('autoref',) if gi < 2 else ()):
            # split large families
            parts = 1 if (n and n <= 80 and mode != 'all-but-two') or len(decl) <= 2 else 8
            for part in range(parts):
                out.append(dict(name=f'{WHAT} bounded {decl} {mode} n={n or "all"} [{be}] part {part}/{parts}',
                                run=_part(decl, mode, seed, n, be, part, parts), label='bounded'))
    # dd.cudd only: the Python manager needs minutes per predicate at this width
    out.append(dict(name='printing predicates over variables of 10 and more bits [cudd]', run=cc_.wide_display('cudd'), label='bounded'))
    from contracts import optdiff as _od
    out.append(dict(name='same results with assert statements stripped (python -O), section C08', run=_od.family('C08'), label='bounded'))
    return out


def _part(decl, mode, seed, n, be, part, parts):
    def run():
        ref, insts = cc_.instances(decl, mode, seed, n)
        sel = insts[part::parts]
        orig = cc_.instances
        try:
            cc_.instances = lambda *a, **k: (ref, sel)
            return cc_.cover_check(decl, mode, seed, n, be, WHAT)()
        finally:
            cc_.instances = orig
    return run


def coverage_extra(results):
    return dict(bounded_parameters=dict(instances='exhaustive: all subsets of the 2x2 and 2x2x2 hinted grids; sampled: 3x3 grid, 4x4 and mixed-sign grids with random care sets, hints narrower than the bit ranges with predicates outside the hints and predicates covering the care set, a 4-variable grid, all 120 predicates missing exactly two points of the 2x2x2x2 grid (VERIF_SEED)'))
