"""C13 — generated code computes outputs that satisfy the relation it came from."""
from ovc import circuit as cc
from contracts import codegen as cgen

LEVEL = 'translation_validation'
TRUSTED = [
    'Python ast module and the ~60-line evaluator of emitted assignments (contracts/codegen.py CodeSem); C target mapped token-wise to the same evaluator',
    'root functions are read off the real dd manager as truth tables (pick_iter): dd itself is trusted',
    'z3; ovc/denote.py for the meaning of the relation in the end-to-end runs',
    'functions.make_functions is covered by its own contract (C14)',
]
ASSUMPTIONS = [
    'per generated program, ALL inputs: every program emitted in the run is validated; the family of programs is finite (Boolean functions of 2 bits exhaustively, seeded random functions, synthesized functions of the end-to-end relations)',
    'layer order (children before parents) follows from the level invariant of dd; a use-before-definition would be reported by the evaluator',
    'integer <-> bit conversion is digit-string code: exhaustive window only (bounded)',
    'end-to-end execution on every state of small instances (bounded)',
]
EXPLANATION = (
    'Every straight-line program emitted by dumps_bdd_as_code during the run (both back ends, Python and C syntax, with and without renaming to bit-vector '
    'expressions) is parsed and each out_bits[name] is proved equal to the BDD root for all inputs. The per-node emitter is proved by complete case analysis '
    'on duck-typed nodes. The conversion helpers copied into generated files are checked on exhaustive windows, and whole generated modules are executed on '
    'every state (negative integers and Booleans included).')
LEVEL_TEXT = 'Translation validation: per emitted program a proof for all inputs; complete case analysis of the node emitter; bounded checks of the digit-string helpers and end-to-end execution.'
DESIGN_REF = 'DESIGN.md section 3, C13'
LEVEL_NOTE = 'Trusted: ast-based evaluator of emitted code, dd truth tables, z3. Bounded: conversion helpers (window), end-to-end states, family of programs.'
TECHNIQUE = 'translation validation of each emitted program with z3 + contract (case analysis) on the node emitter'


def families(tier, seed):
    out = list()
    out.append(dict(name='programs: all Boolean functions of 2 bits', run=cgen.tv_boolean_programs(seed, 0, 2), label='bounded'))
    for nb, k in ((3, 12), (4, 12), (5, 9)) if tier == 'quick' else ((3, 300), (4, 300), (5, 200), (6, 120), (7, 40)):
        out.append(dict(name=f'programs: {k} seeded random functions of {nb} bits', run=cgen.tv_boolean_programs(seed + nb, k, nb), label='bounded'))
    out.append(dict(name='_dumps_node / _latch_ref case analysis', run=lambda: cc.verify_circuit(cgen.h_dumps_node), label='unbounded'))
    out.append(dict(name='int <-> bits conversion window', run=cgen.conv_window(8 if tier == 'quick' else 17), label='bounded'))
    for i in range(len(cgen.E2E)):
        for be in ('cudd', 'autoref'):
            out.append(dict(name=f'synthesized program #{i} [{be}] {cgen.E2E[i][1]}', run=cgen.tv_synthesized(i, be), label='bounded'))
            out.append(dict(name=f'end-to-end #{i} [{be}] {cgen.E2E[i][1]}', run=cgen.e2e_program(i, be), label='bounded'))
    from contracts import optdiff as _od
    out.append(dict(name='same results with assert statements stripped (python -O), section C13', run=_od.family('C13'), label='bounded'))
    return out


def coverage_extra(results):
    programs = 0
    samples = list()
    dis = 0
    for r in results:
        b = r.get('bounded') or {}
        programs += b.get('programs', 0)
        dis += len(b.get('failures', []))
        for s in b.get('samples', [])[:1]:
            if len(samples) < 3:
                samples.append(s)
    return dict(programs=programs, disagreements_checked=dis,
                samples=samples or ['(no program text sampled)'],
                bounded_parameters=dict(programs='finite family listed per run', conversion_window='-8..8 quick, -17..17 thorough'))
