"""C16 — parsing follows the documented precedence; print then re-parse is the identity (bounded only)"""
from contracts import parse_c as pc

LEVEL = 'exploration'
TRUSTED = [
    'reference precedence-climbing parser in contracts/parse_c.py (class Ref, about 60 lines) built from the table in doc/doc.md ("token precedence (lowest to highest) and associativity"): the specification',
    'PLY (table generator and interpreter) is the code under test here, not trusted: the check observes its result',
]
ASSUMPTIONS = [
    'BOUNDED ONLY: precedence, associativity, synonyms and comment skipping are implemented by PLY tables generated from a tuple and docstrings, not by a function body of the repository; no deductive contract reaches them (DESIGN.md section 4).  The postcondition of Parser.parse is evaluated at run time',
    'all ordered pairs of operator tokens of the documented table in every relative position (complete for a pairwise precedence relation); random token sequences with random parentheses up to depth 4 (quick) / 5 (thorough)',
    'fragment: the operator table (binary, prefix, postfix prime, parentheses, numerals incl. negative, TRUE/FALSE, identifiers); quantifiers, LET, IF, ite, ranges, junction lists are not generated (their flatten() output is not parseable by design)',
    'the spellings the lexer keeps in the tree (# /= != and <= =<) are compared modulo that spelling in the random families; the strict comparison is a separate family (known finding C16-kept-spellings)',
    'split_gr1: generated conjunctions with random bracketing, <= 2 init / 2 action / 3 recurrence / 2 persistence conjuncts; 11 formulas outside the fragment',
]
EXPLANATION = (
    'Parser.parse is run on generated token sequences and its tree compared (by repr) with the tree a reference precedence-climbing parser builds from the documented table; '
    'synonyms are swapped, comments / line breaks inserted, and the tree is flattened and parsed again; split_gr1 is compared with the conjunct lists the formula was generated from.')
LEVEL_TEXT = 'Bounded run-time evaluation of the postconditions of Parser.parse, flatten and split_gr1 (exhaustive over operator pairs, sampled beyond); nothing is counted as proved.'
DESIGN_REF = 'DESIGN.md section 4 and section 3, C16'
LEVEL_NOTE = 'Trusted: reference parser written from the documented table. Bounded in sequence length and in the GR(1) conjunction family.'
TECHNIQUE = 'bounded run-time contract evaluation of Parser.parse / flatten / split_gr1 against a reference parser built from the documented table (stand-in: PLY tables are outside any contract)'


def families(tier, seed):
    out = list()
    out.append(dict(name='C16 all ordered pairs of operator tokens (every documented spelling)', run=pc.all_pairs('all'), label='bounded'))
    out.append(dict(name='C16 documented synonyms give the same tree (strict)', run=pc.spelling_classes(), label='bounded'))
    out.append(dict(name='C16 comment bodies (exhaustive over a small alphabet)', run=pc.comment_bodies(4 if tier == 'quick' else 5), label='bounded'))
    n, depth, parts = (300, 4, 4) if tier == 'quick' else (3000, 5, 12)
    for i in range(parts):
        out.append(dict(name=f'C16 random token sequences depth<={depth} part {i}', run=pc.random_sequences(seed * 1000 + i, n, depth), label='bounded'))
    for i in range(parts // 2):
        out.append(dict(name=f'C16 synonyms, comments, flatten-then-parse part {i}', run=pc.synonyms(seed * 1000 + 500 + i, n), label='bounded'))
    out.append(dict(name='C16 one-line comments and the placement of the line break', run=pc.comment_line_breaks(seed, n), label='bounded'))
    for i in range(parts // 2):
        out.append(dict(name=f'C16 split_gr1 part {i}', run=pc.split_family(seed * 1000 + 700 + i, n), label='bounded'))
    from contracts import optdiff as _od
    out.append(dict(name='same results with assert statements stripped (python -O), section C16', run=_od.family('C16'), label='bounded'))
    return out


def coverage_extra(results):
    return dict(bounded_parameters=dict(
        operator_pairs='all ordered pairs of the documented table, every spelling, every relative position',
        random_sequences='depth <= 4 quick / 5 thorough (VERIF_SEED)',
        split_gr1='<= 2 init, 2 action, 3 recurrence, 2 persistence conjuncts, random bracketing'))
