"""C11 — controllable predecessor, attractor, trap, image, descendants."""
from ovc import harness, shapes
from contracts import fixpoint as cf

LEVEL = 'proof'
TRUSTED = [
    'SpecBDD = assumed contract of dd.autoref / dd.cudd (validated differentially, not proved)',
    'CPython 3.12 executes the extracted function text (only rewrite: loop cut at the invariant)',
    'z3 5.1 / z3 4.8.12 / cvc5 1.0.3 soundness',
    'spec functions ovc/spec.py (cpre, image) are specification, reviewed not verified',
]
ASSUMPTIONS = [
    'partial correctness: termination of the fixpoint loops is not proved',
    'A7: uniformity in the declaration shape beyond the enumerated family (per-shape proofs; data fully symbolic)',
    'prime.prime / prime.unprime / Context.exist / Context.forall / Context.let are executed in-line on SpecBDD inside step and ee_image (their own contracts: C18, C07)',
    'fixpoint.preimage is a one-line wrapper of dd.bdd.preimage: dependency, not claimed',
]
EXPLANATION = (
    'Each of fixpoint.step/attractor/trap/ee_image/descendants is re-extracted from the current '
    'source, run by CPython on a z3-backed manager with uninterpreted actions/targets, loops cut at '
    'inductive invariants, callee `step`/`ee_image` replaced by its contract stub; the resulting '
    'verification conditions are discharged by z3 for ALL actions, targets, safe/unless/inside sets '
    'at once, per declaration shape and mode.')


def _mk(fname, sh, moore, plus_one, extra):
    h = cf.FUNCTIONS[fname]
    params = dict(moore=moore, plus_one=plus_one, **extra)

    def run():
        return harness.verify(h, sh, params)
    x = ','.join(f'{k}={v}' for k, v in extra.items())
    return dict(
        name=f'{fname}[{x}] {shapes.mode_name(moore, plus_one)} {sh.name}',
        run=run, label='per-shape')


def families(tier, seed):
    out = list()
    shs = shapes.family(tier, seed)
    for sh in shs:
        for moore, plus_one in shapes.MODES:
            out.append(_mk('step', sh, moore, plus_one, {}))
            for un in (True, False):
                out.append(_mk('trap', sh, moore, plus_one, dict(unless=un)))
            for ins in (True, False):
                out.append(_mk('attractor', sh, moore, plus_one, dict(inside=ins)))
        for pre in ('fresh', 'swapped', 'absent', 'stale-extra'):
            out.append(_mk('build', sh, True, True, dict(pre=pre)))
        out.append(_mk('ee_image', sh, True, True, {}))
        for fut in (True, False):
            out.append(_mk('descendants', sh, True, True, dict(future=fut)))
    # BOUNDED: the same harnesses on the real dd managers of both back ends
    ns = 4 if tier == 'quick' else 40
    for be in (None, 'autoref'):
        for sh in (shapes.QUICK[2], shapes.QUICK[1]):
            for moore, plus_one in shapes.MODES:
                for fname, extra in (('step', {}), ('trap', dict(unless=True)), ('attractor', dict(inside=True))):
                    out.append(dict(
                        name=f'real manager sweep [{be or "default"}] {fname} {shapes.mode_name(moore, plus_one)} {sh.name}',
                        run=harness.sweep(cf.FUNCTIONS[fname], sh, dict(moore=moore, plus_one=plus_one, **extra), 'automaton', seed, ns, be),
                        label='bounded'))
            for fname, extra in (('ee_image', {}), ('descendants', dict(future=True)), ('descendants', dict(future=False))):
                out.append(dict(
                    name=f'real manager sweep [{be or "default"}] {fname} {extra} {sh.name}',
                    run=harness.sweep(cf.FUNCTIONS[fname], sh, dict(moore=True, plus_one=True, **extra), 'automaton', seed, ns, be),
                    label='bounded'))
    from contracts import context_ops as _co
    for be in ('cudd', 'autoref'):
        out.append(dict(name=f'renaming, priming and enumeration on variables of 11 and 12 bits [{be}]', run=_co.wide_enumeration(be), label='bounded'))
    from contracts import optdiff as _od
    out.append(dict(name='same results with assert statements stripped (python -O), section C01', run=_od.family('C01'), label='bounded'))
    return out


def coverage_extra(results):
    return dict(bounded_parameters=dict(
        declaration_shape='finite family (ovc/shapes.py): 4 quick, +5 fixed +6 seeded thorough; data (actions, sets) unbounded/symbolic',
        modes='all 4 (moore x plus_one): complete'))

LEVEL_TEXT = ('Deductive proof, per declaration shape and mode, for ALL actions, targets and safe/unless/inside/constrain sets: '
              'step == exact CPre (both quantifier orders, both causality forms), trap == greatest fixpoint, attractor == least fixpoint of the '
              'documented recurrence, ee_image == exact successor set, descendants == least constrained-closed set. '
              'Loops are cut at inductive invariants, so the number of fixpoint iterations is unbounded.')
DESIGN_REF = 'DESIGN.md section 3, C11'
LEVEL_NOTE = ('Trusted: SpecBDD as the contract of dd (validated differentially), z3, the spec functions in ovc/spec.py. '
              'Bounded parameter: the declaration shape (finite family); data is symbolic. Termination not proved.')
TECHNIQUE = 'contracts + loop invariants on the real functions, VCs generated by native symbolic execution, discharged by z3'
