"""C17 — results do not depend on BDD back end, variable order or context history."""
from ovc import harness, shapes
from ovc.worlds import Shape
from contracts import history_c as hc
from contracts import fixpoint as cf
from contracts import gr1_init as ci
from contracts import functions as cfn
from contracts import bv_nodes as bn

LEVEL = 'other'
TRUSTED = [
    'A1: dd.autoref and dd.cudd conform to SpecBDD -- VALIDATED differentially on every run (random operation sequences incl. garbage collection and reordering, exhaustive truth-table comparison), not proved; reorder / GC invariance is a property of dd, not claimed',
    'every function verified under C01-C20 is proved against the abstract manager only, so its meaning cannot depend on which conforming manager is used',
    'z3; ovc/denote.py',
]
ASSUMPTIONS = [
    'not a single-function property: decided as (i) frame contracts of declaration (proved per shape, all earlier BDDs), (ii) cache contract of Automaton._fetch_expr/_cache_expr/_clear_invalid_cache (proved on instances, all node values), '
    '(iii) equivalence of the recursive and the iterative prefix translator on every prefix string produced for the C06 formula lists (proved for all values), '
    '(iv) BOUNDED: contract harnesses of C11/C03/C14 re-run on both real back ends with seeded random data; random histories of context operations (declare, add, quantify, substitute, print, reorder, collect, copy) against a truth-table model on both back ends',
]
EXPLANATION = (
    'History independence is proved as frame conditions of Context.declare / declare_variables (earlier table entries, bits, BDD meaning and reported support unchanged; new identifiers get fresh bits; clashing bit names refused). '
    'The expression cache is proved to show only expressions equivalent to the node. The two prefix translators are proved equivalent on the strings the bitblaster emits. '
    'Back-end independence rests on the abstract-manager proofs plus a differential validation of both dd back ends against the abstract manager, and bounded re-runs of contract harnesses and random operation histories on the real managers.')
LEVEL_TEXT = 'Proof of frame, cache and translator-agreement contracts; differential validation of the dd contract; bounded history sequences on both back ends.'
DESIGN_REF = 'DESIGN.md section 3, C17'
LEVEL_NOTE = 'Trusted: the dd contract (validated, not proved). Bounded: history sequences, back-end sweeps.'
TECHNIQUE = 'frame / cache contracts verified by native symbolic execution + z3; differential validation of the assumed dependency contract; bounded history exploration'

PRIOR = dict(x=(0, 2), b='bool')


def families(tier, seed):
    out = list()
    base = Shape(sys=PRIOR, name='prior x:0..2, b')
    cases = [
        ('fresh integer and Boolean', dict(new=dict(y=(-1, 1), c='bool'), formula=r'(y < x) /\ c')),
        ('identical re-declaration', dict(new=dict(x=(0, 2), z=(0, 1)), formula='x + z = 2')),
        ('flexible variables', dict(new=dict(y=(0, 1)), formula="y' = y", flexible=True)),
        ('aux-like names', dict(new=dict(a_x=(0, 2), b_x=(0, 2)), formula='a_x <= b_x')),
        ('clash: Boolean named like a bit of an earlier integer', dict(new=dict(x_0='bool'), formula='x_0', expect_refusal=True)),
        ('clash: different hint for a declared variable', dict(new=dict(x=(0, 5)), formula='x = 4', expect_refusal=True)),
    ]
    for name, p in cases:
        kind = 'automaton' if p.get('flexible') else 'context'
        sh = base if kind == 'context' else Shape(sys=PRIOR, name='prior (automaton)')

        def run(sh=sh, p=p, kind=kind):
            return harness.verify(hc.h_declare_frame, sh, p, kind=kind)
        out.append(dict(name=f'declare frame: {name}', run=run, label='per-shape'))
    # clash the other way round: integer declared after a Boolean named like its bit
    sh2 = Shape(sys=dict(x_0='bool', b='bool'), name='prior x_0 (Boolean), b')

    def run2():
        return harness.verify(hc.h_declare_frame, sh2, dict(new=dict(x=(0, 2)), formula='x = 1', expect_refusal=True), kind='context')
    out.append(dict(name='declare frame: clash: integer whose bit is named like an earlier Boolean', run=run2, label='per-shape'))
    for sh in shapes.QUICK[:2]:
        exprs = ['x' if sh.env.get('x') == 'bool' else 'x = 1', 'y' if sh.sys.get('y') == 'bool' else 'y = 0', r"x' \/ TRUE" if False else ('~ y' if sh.sys.get('y') == 'bool' else 'y # 0')]

        def run(sh=sh, exprs=exprs):
            return harness.verify(hc.h_cache, sh, dict(exprs=exprs))
        out.append(dict(name=f'expression cache {sh.name}', run=run, label='per-shape'))
    for cname in bn.CONTEXTS:
        out.append(dict(name=f'translators agree [{cname}]', run=hc.translators_agree(cname), label='per-shape'))
    out.append(dict(name='translators agree [primed, nonneg]', run=hc.translators_agree('nonneg', primed=True), label='per-shape'))
    out.append(dict(name='A1: dd conforms to SpecBDD (differential)', run=hc.ddcheck_family(seed, 10 if tier == 'quick' else 120), label='bounded'))
    ns = 6 if tier == 'quick' else 60
    for be in (None, 'autoref'):
        tag = be or 'default'
        sh = shapes.QUICK[2]
        for moore, plus_one in shapes.MODES[:2] if tier == 'quick' else shapes.MODES:
            p = dict(moore=moore, plus_one=plus_one, unless=True, inside=True)
            for fname in ('step', 'trap', 'attractor'):
                out.append(dict(name=f'back-end sweep [{tag}] {fname} {shapes.mode_name(moore, plus_one)}',
                                run=harness.sweep(cf.FUNCTIONS[fname], sh, p, 'automaton', seed, ns, be), label='bounded'))
            out.append(dict(name=f'back-end sweep [{tag}] is_realizable {shapes.mode_name(moore, plus_one)}',
                            run=harness.sweep(ci.h_is_realizable, sh, dict(moore=moore, plus_one=plus_one, qinit=r'\A \E'), 'automaton', seed, ns, be), label='bounded'))
        shf = Shape(sys={k: 'bool' for k in ('i0', 'i1', 'o0', 'o1')}, name='2 in 2 out')
        out.append(dict(name=f'back-end sweep [{tag}] make_functions',
                        run=harness.sweep(cfn.h_make_functions, shf, dict(inputs=['i0', 'i1'], vrs=['o0', 'o1']), 'context', seed, 4 * ns, be), label='bounded'))
    for be in ('cudd', 'autoref'):
        out.append(dict(name=f'a refused declaration leaves the context unchanged [{be}]', run=hc.refused_declaration(be), label='bounded'))
    from contracts import gr1_monitor as gm
    for be in ('cudd', 'autoref'):
        out.append(dict(name=f'copied automaton keeps its own operator definitions [{be}]', run=hc.copy_isolation(be), label='bounded'))
        for kind in ('streett', 'rabin'):
            out.append(dict(name=f'synthesizing again in the same context ({kind}: games, modes and the variable partition replaced) [{be}]',
                            run=gm.resolve_same_automaton(kind, seed + 7, 6 if tier == 'quick' else 80, be), label='bounded'))
    nseq = 16 if tier == 'quick' else 200
    for be in ('cudd', 'autoref'):
        out.append(dict(name=f'history sequences [{be}]', run=hc.history_sequences(seed, nseq, be), label='bounded'))
    from contracts import optdiff as _od
    out.append(dict(name='same results with assert statements stripped (python -O), section C07', run=_od.family('C07'), label='bounded'))
    return out


def coverage_extra(results):
    return dict(bounded_parameters=dict(history='16 sequences x 14 operations per back end quick, 200 thorough (incl. node references to earlier BDDs and simultaneous renamings); automaton copies: all ordered pairs of 6 definitions x 2 orders', ddcheck='10 x 40 operations quick, 120 x 40 thorough'))
