"""C06 — formula -> BDD translation agrees with integer / Boolean semantics."""
import itertools

from ovc import circuit as cc
from ovc import harness
from ovc.worlds import Shape
from contracts import bv_circuits as bc
from contracts import bv_stages as bs
from contracts import bv_nodes as bn

LEVEL = 'proof'
TRUSTED = [
    'SpecBDD = assumed contract of dd (validated differentially)',
    'the real prefix evaluator omega.symbolic.bdd (Parser, BDDNodes) gives the meaning of generated strings: it is part of the pipeline under verification, executed, not modelled',
    'PLY-generated parsers (A5)',
    'SMT-LIB bit-vector semantics (bvadd/bvsub/bvshl = integer arithmetic modulo 2^n): bridge between bit-level stage obligations and integer-level lemmas',
    'A6 parametricity of the generators in atom names and start offsets (atoms are only inspected by isdigit())',
    'spec: ovc/circuit.py sval/uval, ovc/denote.py (formula semantics, about 150 lines)',
    'z3 soundness; CPython executes the re-extracted text',
]
ASSUMPTIONS = [
    'division/remainder claimed only for non-zero divisors',
    'widths: adder/comparators/extension/ite/negate: every operand width pair the translator admits is enumerated in the thorough tier (sign_extension asserts n < 32), a sample in the quick tier; multiplier: stages for every N <= 31 and s (thorough), arithmetic lemmas for every N; divider: n <= 15 is the whole domain (2n-bit internal registers must stay below 32 bits)',
    'monolithic multiplier/divider proofs (everything in-lined) only for small widths: cross-check of the stage-wise argument',
    'end-to-end formulas: fixed list x 4 declaration contexts (per-formula proofs, bounded in the formula); documented precedence/associativity: one pair per adjacent level of the table in doc/doc.md (list PRECEDENCE)',
    'numerals: digit-string code, exhaustive window only (bounded)',
    'the undocumented substitution operator \\S is not claimed: it calls bdd.rename, which the installed dd managers do not have (AttributeError on both back ends)',
    'real dd managers: the end-to-end formulas are also evaluated on dd.cudd and dd.autoref at every assignment (bounded); everything else runs on the abstract manager',
]
EXPLANATION = (
    'Circuit generators of omega.logic.bitvector are re-extracted and run on opaque bit atoms; the strings they return are evaluated by the '
    'real prefix evaluator over a z3-backed manager and proved equal to the integer operation for ALL bit values per operand-width pair. '
    'Multiplier and restoring divider are proved stage-wise (recursive call and adder by contract) plus closing lemmas over mathematical '
    'integers, so every admissible width is covered. AST node classes are proved by structural induction with stub operands; the real '
    'Context.add_expr pipeline is additionally proved on a list of formulas against an independent denotation.')
LEVEL_TEXT = ('Deductive proof for all bit values: circuits == integer operations per width pair (complete width range in the thorough tier), '
              'stage-wise multiplier/divider with integer closing lemmas, node classes by structural induction, plus per-formula end-to-end proofs.')
DESIGN_REF = 'DESIGN.md section 3, C06'
LEVEL_NOTE = ('Trusted: SpecBDD, z3, BV<->integer bridge, denotation evaluator. Bounded: numerals window; end-to-end formula list; quick tier samples width pairs.')
TECHNIQUE = 'contracts on real circuit generators run on opaque atoms + real prefix evaluator; BV/LIA verification conditions discharged by z3'

QUICK_PAIRS = [(2, 2), (2, 3), (3, 2), (3, 5), (5, 3), (4, 4), (8, 8), (7, 12),
               (16, 15), (2, 30), (30, 2), (30, 30)]


def _circ(name, h, label='unbounded-data'):
    def run():
        return cc.verify_circuit(h)
    return dict(name=name, run=run, label='per-shape')


def families(tier, seed):
    out = list()
    thorough = tier == 'thorough'
    pairs = ([(a, b) for a in range(2, 31) for b in range(2, 31)]
             if thorough else QUICK_PAIRS)
    # ---- adder / comparators
    for nx, ny in pairs:
        for add in (True, False):
            for ext in (0, 1):
                if max(nx, ny) + ext >= 32:
                    continue
                out.append(_circ(f'adder_subtractor {nx}x{ny} add={add} extend_by={ext} start=3',
                                 bc.h_adder(nx, ny, add, ext, 3)))
        out.append(_circ(f'adder_subtractor {nx}x{ny} sign-literal operands start=0',
                         bc.h_adder(nx, ny, True, 1, 0, '0', '1')))
        for op in ['=', '#', '/=', '!=', '<', '<=', '=<', '>=', '>']:
            out.append(_circ(f'flatten_comparator {op} {nx}x{ny}',
                             bc.h_comparator(op, nx, ny, start=(nx + ny) % 3,
                                             sx='0' if nx % 2 else 'var')))
    widths = range(2, 31) if thorough else (2, 3, 5, 8, 16, 30)
    for n in widths:
        for m in ((n, n + 1, min(31, n + 7), 31) if not thorough else range(n, 32)):
            if m < n or m >= 32:
                continue
            out.append(_circ(f'extension/shift n={n} m={m}', bc.h_extension(n, m)))
        out.append(_circ(f'ite n={n}', bc.h_ite(n, 2)))
        if n + 1 < 31:
            for sx in ('var', '0', '1'):
                out.append(_circ(f'negate/abs n={n} sign={sx}', bc.h_negate(n, 1, sx)))
    # ---- multiplier: stages + lemmas + wrapper (+ monolithic small)
    Ns = range(4, 32) if thorough else (4, 7, 13, 31)
    for N in Ns:
        ss = range(N) if thorough else sorted({0, 1, N // 2, N - 1})
        for s in ss:
            out.append(_circ(f'_multiplier stage N={N} s={s}', bs.h_mul_stage(N, s, 3)))
        out.append(_circ(f'_multiplier stage N={N} s=None(top)', bs.h_mul_stage(N, None, 0, top=True)))
    for N in range(4, 32):
        out.append(_circ(f'multiplier lemmas N={N}', bs.h_mul_lemmas(N)))
    mpairs = ([(a, b) for a in range(2, 30) for b in range(2, 30) if a + b < 32]
              if thorough else [(2, 2), (3, 5), (5, 3), (8, 8), (16, 15), (2, 29), (12, 9)])
    for nx, ny in mpairs:
        out.append(_circ(f'multiplier wrapper {nx}x{ny}', bs.h_mul_wrapper(nx, ny, 1)))
    mono = [(2, 2), (3, 3), (4, 3), (3, 5), (5, 5), (6, 6)] + ([(7, 7), (8, 6), (4, 10)] if thorough else [])
    for nx, ny in mono:
        out.append(_circ(f'multiplier monolithic {nx}x{ny}', bc.h_multiplier(nx, ny, 1)))
        out.append(_circ(f'multiplier monolithic {nx}x{ny} sign-literal', bc.h_multiplier(nx, ny, 0, '0', '1')))
    # ---- divider: n <= 15 is the whole domain
    ns = range(3, 16) if thorough else (3, 4, 8, 15)
    for n in ns:
        ss = range(0, n - 1) if thorough else sorted({0, n // 2, n - 2})
        for s in ss:
            out.append(_circ(f'_restoring_divider stage n={n} s={s}', bs.h_div_stage(n, s, 2)))
        for ny in sorted({n, n - 1, 2}):
            out.append(_circ(f'_restoring_divider top n={n} len(y)={ny}',
                             bs.h_div_stage(n, None, 1, top=True, ny=ny)))
    for n in range(3, 16):
        out.append(_circ(f'restoring_divider lemmas n={n}', bs.h_div_lemmas(n)))
    dpairs = ([(a, b) for a in range(2, 15) for b in range(2, 15)]
              if thorough else [(2, 2), (5, 3), (3, 5), (2, 4), (8, 8), (14, 10), (10, 14)])
    for nx, ny in dpairs:
        out.append(_circ(f'restoring_divider wrapper {nx}x{ny}', bs.h_div_wrapper(nx, ny, 1)))
    dmono = [(2, 2), (3, 3), (5, 3), (3, 5), (2, 4)] + ([(8, 8), (9, 6), (6, 9)] if thorough else [])
    for nx, ny in dmono:
        out.append(_circ(f'restoring_divider monolithic {nx}x{ny}', bc.h_divider(nx, ny, 1)))
    out.append(_circ('restoring_divider monolithic 3x4 sign-literal (non-negative hints)',
                     bc.h_divider(3, 4, 0, '0', '0')))
    # ---- node classes (structural induction)
    npairs = [(2, 2), (3, 5), (6, 4)] + ([(9, 9), (4, 12)] if thorough else [])
    for nx, ny in npairs:
        for op in ['+', '-', '*', '/', '%']:
            if op in '/%' and nx + ny > 10:
                continue
            out.append(_circ(f'Nodes.Arithmetic {op} {nx}x{ny}', bn.h_arith_node(op, nx, ny)))
        for op in ['=', '#', '/=', '!=', '<', '<=', '=<', '>=', '>']:
            out.append(_circ(f'Nodes.Comparator {op} {nx}x{ny}', bn.h_comparator_node(op, nx, ny)))
    for op in ['/\\', r'\/', '=>', '<=>', '^']:
        out.append(_circ(f'Nodes.Binary {op}', bn.h_binary_node(op)))
    for ne, lo, hi in [(3, 1, 2), (4, -3, 5), (5, -9, -2)]:
        out.append(_circ(f'Nodes.Binary \\in width {ne} {lo}..{hi}', bn.h_range_node(ne, lo, hi)))
    for n in (3, 6):
        out.append(_circ(f'Nodes.Unary/Operator n={n}', bn.h_unary_ite_nodes(n)))
    lim = 4096 if not thorough else 70000
    out.append(dict(name=f'numerals -{lim}..{lim}', run=bn.h_numerals(-lim, lim), label='bounded'))
    # ---- end-to-end
    for cname, decl in bn.CONTEXTS.items():
        sh = Shape(sys=decl, name=f'context {cname} {decl}')
        for fml in bn.FORMULAS:
            def run(sh=sh, fml=fml):
                return harness.verify(bn.h_formula(fml), sh, kind='context')
            out.append(dict(name=f'add_expr [{cname}] {fml}', run=run, label='per-shape'))
        for ops, fml in [('foo == x + y > 3\nbar == foo /\\ b', r'bar \/ (z = 1)')] + [d for d in bn.DEFINITIONS if "'" not in d[0]]:
            def run(sh=sh, fml=fml, ops=ops):
                return harness.verify(bn.h_formula(fml, with_ops=ops), sh, kind='context')
            out.append(dict(name=f'add_expr with defined operators [{cname}] {fml}', run=run, label='per-shape'))

        def run(sh=sh):
            return harness.verify(bn.h_formula(r'@A \/ (b /\ @B)', node_refs={'@A': 'x < y', '@B': 'z = w'}), sh, kind='context')
        out.append(dict(name=f'add_expr with BDD references [{cname}]', run=run, label='per-shape'))
    # ---- documented precedence / associativity; operator definitions per context
    sh = Shape(sys=bn.PREC_CONTEXT, name=f'context prec {bn.PREC_CONTEXT}')
    for plain, right, wrong in bn.PRECEDENCE:
        def run(sh=sh, a=(plain, right, wrong)):
            return harness.verify(bn.h_precedence(*a), sh, kind='context')
        out.append(dict(name=f'precedence: {plain}  ==  {right}', run=run, label='per-shape'))
    sha = Shape(sys=bn.PREC_CONTEXT, name='automaton prec')
    for plain, right, wrong in bn.PRECEDENCE_PRIMED:
        def run(sh=sha, a=(plain, right, wrong)):
            return harness.verify(bn.h_precedence(*a), sh, kind='automaton')
        out.append(dict(name=f'precedence (primed): {plain}  ==  {right}', run=run, label='per-shape'))
    for d1, d2, fml in [('foo == x + y > 3\nbar == foo /\\ b', 'foo == x - y < 2\nbar == foo => ~ b', r'bar \/ (z = 1)'),
                        ('small == x + 1 <= w', 'small == x * 2 > w', r'small /\ ~ c')]:
        def run(sh=sh, a=(d1, d2, fml)):
            return harness.verify(bn.h_two_contexts(*a), sh, kind='context')
        out.append(dict(name=f'operator definitions are per context: {fml} with {d2!r} after {d1!r} elsewhere', run=run, label='per-shape'))
    # bitfields wider than 10 bits
    shw = Shape(sys=bn.WIDE_CONTEXT, name=f'wide {bn.WIDE_CONTEXT}')
    for fml in bn.WIDE_FORMULAS:
        prm = "'" in fml
        def run(sh=shw, fml=fml, prm=prm):
            return harness.verify(bn.h_formula(fml), sh, kind='automaton' if prm else 'context')
        out.append(dict(name=f'add_expr [wide] {fml}', run=run, label='per-shape'))
    for be in (None, 'autoref'):
        out.append(dict(name=f'wide formulas on the real manager [{be or "default"}]',
                        run=bn.real_manager_formulas('wide', be, primed=True, samples=200, decl=bn.WIDE_CONTEXT, formulas=bn.WIDE_FORMULAS), label='bounded'))
    # BOUNDED: the same formulas on the real dd managers (acceptance and meaning)
    for cname in bn.CONTEXTS:
        for be in (None, 'autoref'):
            out.append(dict(name=f'end-to-end formulas on the real manager [{be or "default"}] [{cname}]',
                            run=bn.real_manager_formulas(cname, be), label='bounded'))
    for be in (None, 'autoref'):
        out.append(dict(name=f'primed formulas on the real manager [{be or "default"}] [nonneg]',
                        run=bn.real_manager_formulas('nonneg', be, primed=True), label='bounded'))
    for cname in ('nonneg', 'signed'):
        decl = bn.CONTEXTS[cname]
        sh = Shape(sys=decl, name=f'automaton {cname}')
        for fml in bn.PRIMED:
            def run(sh=sh, fml=fml):
                return harness.verify(bn.h_formula(fml), sh, kind='automaton')
            out.append(dict(name=f'add_expr primed [{cname}] {fml}', run=run, label='per-shape'))
        for ops, fml in bn.PRIMED_DEFS:
            def run(sh=sh, fml=fml, ops=ops):
                return harness.verify(bn.h_formula(fml, with_ops=ops), sh, kind='automaton')
            out.append(dict(name=f'add_expr primed use of a registered operator [{cname}] {fml}', run=run, label='per-shape'))
    from contracts import optdiff as _od
    out.append(dict(name='same results with assert statements stripped (python -O), section C06', run=_od.family('C06'), label='bounded'))
    return out


def coverage_extra(results):
    return dict(bounded_parameters=dict(
        operand_widths='quick: sample; thorough: all pairs in [2,30]^2 (adder, comparators), all N <= 31 and stages (multiplier), all n <= 15 (divider): the whole admissible range',
        formulas='end-to-end list (contracts/bv_nodes.py FORMULAS, PRIMED, PRECEDENCE, PRECEDENCE_PRIMED) x declaration contexts',
        numerals='exhaustive window (bounded)'))
