"""C03 — realizability verdict and synthesized initial condition."""
from ovc import harness, shapes
from contracts import gr1_init as ci

LEVEL = 'proof'
TRUSTED = [
    'SpecBDD = assumed contract of dd (validated differentially, not proved)',
    'CPython executes the re-extracted function text; z3 soundness',
    'the four initial-condition formulas in contracts/gr1_init.py:verdict_spec are specification (from the property statement / docstring)',
]
ASSUMPTIONS = [
    'Win is an arbitrary state predicate: that the solver returns the true winning region is C01/C04',
    '"construction succeeds" (assert u != aut.false on the synthesized action) is covered under C02/C05, not here',
    'A7: uniformity in the declaration shape beyond the enumerated family',
    'Context.exist / Context.forall executed in-line on SpecBDD (own contracts: C07)',
]
EXPLANATION = (
    'gr1.is_realizable and gr1._make_init are re-extracted from source and run on uninterpreted Win / EnvInit / SysInit / '
    'InternalInit; the verdict is proved equivalent to the validity of the documented initial-condition formula for each of the 4 '
    'qinit forms x 2 causality modes x Moore/Mealy, and init[impl] equal to the documented set, for ALL predicates; both sides of the '
    '`if not r` branch are explored; internal assertions are proved unreachable under the precondition.')
LEVEL_TEXT = ('Deductive proof per declaration shape for all initial predicates and winning sets: verdict <=> validity of the qinit formula; '
              'init[impl] == documented set /\\ InternalInit; admitted states satisfy SysInit and Win under EnvInit; frame.')
DESIGN_REF = 'DESIGN.md section 3, C03'
LEVEL_NOTE = 'Trusted: SpecBDD, z3, the specification formulas. Bounded parameter: declaration shape. Win is a parameter (its exactness is C01/C04).'
TECHNIQUE = 'contracts on the real straight-line functions, VCs by native symbolic execution with path forking, discharged by z3'


def _mk(fname, sh, moore, plus_one, qinit):
    h = ci.FUNCTIONS[fname]
    params = dict(moore=moore, plus_one=plus_one, qinit=qinit)

    def run():
        return harness.verify(h, sh, params)
    return dict(name=f'{fname} qinit={qinit} {shapes.mode_name(moore, plus_one)} {sh.name}',
                run=run, label='per-shape')


def families(tier, seed):
    out = list()
    for sh in shapes.family(tier, seed):
        for moore, plus_one in shapes.MODES:
            for q in ci.QINITS:
                out.append(_mk('is_realizable', sh, moore, plus_one, q))
                out.append(_mk('_make_init', sh, moore, plus_one, q))
    # "with internal memory at its initial value": the initial conditions the two
    # transducer constructions hand to _make_init (two goals: the counter has more than one value)
    from contracts import gr1_transducers as gt
    sh = shapes.QUICK[0]
    for moore, plus_one in shapes.MODES:
        for q in ci.QINITS:
            mn = shapes.mode_name(moore, plus_one)
            for fname, h, extra in (('make_streett_transducer', gt.h_streett_transducer, dict(L=2)),
                                    ('make_rabin_transducer', gt.h_rabin_transducer, dict(L=2, T=2))):
                params = dict(moore=moore, plus_one=plus_one, n_holds=1, n_goals=2, qinit=q, **extra)
                out.append(dict(name=f'{fname} (initial condition incl. memory) qinit={q} {mn} {sh.name}',
                                run=(lambda h=h, params=params: harness.verify(h, sh, params)), label='per-shape'))
    from contracts import optdiff as _od
    out.append(dict(name='same results with assert statements stripped (python -O), section C01', run=_od.family('C01'), label='bounded'))
    return out


def coverage_extra(results):
    return dict(bounded_parameters=dict(
        declaration_shape='finite family (ovc/shapes.py); initial predicates and Win symbolic',
        qinit='all 4: complete', modes='all 4: complete'))
