"""C14 — functional synthesis (functions.extract_function, make_functions)."""
from ovc import harness
from ovc.worlds import Shape
from contracts import functions as cfn

LEVEL = 'proof'
TRUSTED = [
    'SpecBDD = assumed contract of dd (validated differentially, not proved)',
    'assumed contract of dd.cudd.restrict(p, care): result agrees with p on care, support within support(p)',
    'CPython executes the re-extracted function text (only rewrite: cut of `for z in inputs`); z3 soundness',
]
ASSUMPTIONS = [
    'care-set clause read as: care contains every input where the value is pinned (in particular every forced input, where g takes the forced value); '
    'the strict reading care == (u1 xor u0) is false for the pinned code on almost all relations (DESIGN.md C14)',
    'per bit-shape (number of input / output bits); relation fully symbolic',
    'make_functions is verified against the CONTRACT of extract_function (stub), not its body',
    'back-end specific behaviour (dd.cudd.restrict vs the restrict-free path) and its independence of what ran before in the process: bounded (40 / 400 random relations per order, fresh interpreter)',
]
EXPLANATION = (
    'extract_function is re-extracted with its `for z in inputs` loop cut at the invariant (p,n disjoint; forced-1 inputs in p; '
    'all yp=0-solvable inputs in n; no output bit in either), dd.cudd.restrict replaced by its assumed contract, and also with the '
    'restrict-free branch (_bdd is None) that the test-suite never executes; make_functions is run with extract_function replaced by '
    'its contract stub. All obligations are for an arbitrary (uninterpreted) relation.')
LEVEL_TEXT = ('Deductive proof per bit-shape, for all relations: extracted functions depend on no output bit; wherever the relation has '
              'some output, substituting the functions satisfies it; g takes the forced value and the care set contains every forced/solvable input; both restrict paths.')
DESIGN_REF = 'DESIGN.md section 3, C14'
LEVEL_NOTE = 'Trusted: SpecBDD, the restrict dependency contract, z3. Bounded parameter: numbers of input/output bits (shape).'
TECHNIQUE = 'contracts + for-loop invariant on the real functions, callee stubs, VCs discharged by z3'


def _shape(m, k, extra=0):
    bits = {f'i{j}': 'bool' for j in range(m)}
    bits.update({f'o{j}': 'bool' for j in range(k)})
    bits.update({f'e{j}': 'bool' for j in range(extra)})
    return Shape(sys=bits, name=f'{m} input bits, {k} output bits' + (f', {extra} unrelated bits' if extra else ''))


def families(tier, seed):
    out = list()
    sizes = [(m, k) for m in (1, 2, 3) for k in (1, 2, 3)]
    if tier == 'thorough':
        sizes += [(4, 2), (5, 2), (4, 4), (6, 3), (7, 3)]
    for m, k in sizes:
        ins = [f'i{j}' for j in range(m)]
        outs = [f'o{j}' for j in range(k)]
        for restrict in (True, False):
            for cut in ((True, False) if m <= 2 else (True,)):
                sh = _shape(m, k, extra=1)
                params = dict(inputs=ins, outputs=outs[1:], yp=outs[0],
                              restrict=restrict, cut=cut)

                def run(sh=sh, params=params):
                    return harness.verify(cfn.h_extract_function, sh, params, kind='context')
                out.append(dict(
                    name=f'extract_function restrict={restrict} cut={cut} {sh.name}',
                    run=run, label='per-shape'))
        sh = _shape(m, k)
        params = dict(inputs=ins, vrs=outs)

        def run(sh=sh, params=params):
            return harness.verify(cfn.h_make_functions, sh, params, kind='context')
        out.append(dict(name=f'make_functions {sh.name}', run=run, label='per-shape'))
        params = dict(inputs=ins, vrs=outs, dup=True)

        def run(sh=sh, params=params):
            return harness.verify(cfn.h_make_functions, sh, params, kind='context')
        out.append(dict(name=f'make_functions (outputs listed in reverse, one twice) {sh.name}', run=run, label='per-shape'))
        for form in ('set', 'iter', 'tuple', 'keys'):
            params = dict(inputs=ins, vrs=outs, form=form)

            def run(sh=sh, params=params):
                return harness.verify(cfn.h_make_functions, sh, params, kind='context')
            out.append(dict(name=f'make_functions (outputs given as {form}) {sh.name}', run=run, label='per-shape'))
        if k >= 2:
            # one declared output that the relation ignores
            params = dict(inputs=ins, vrs=outs, r_bits=ins + outs[:-1])

            def run(sh=sh, params=params):
                return harness.verify(cfn.h_make_functions, sh, params, kind='context')
            out.append(dict(name=f'make_functions (last output ignored by r) {sh.name}',
                            run=run, label='per-shape'))
    for order in ('cudd,autoref,cudd', 'autoref,cudd,autoref'):
        out.append(dict(name=f'make_functions on both back ends in one process, order {order}',
                        run=cfn.backend_sequence(seed, 40 if tier == 'quick' else 400, order), label='bounded'))
    from contracts import optdiff as _od
    out.append(dict(name='same results with assert statements stripped (python -O), section C14', run=_od.family('C14'), label='bounded'))
    return out


def coverage_extra(results):
    return dict(bounded_parameters=dict(
        bit_shape='(inputs, outputs) in {1,2,3}^2 quick; up to 10 bits thorough; relation symbolic',
        restrict_paths='with dd.cudd.restrict contract and with _bdd = None: both'))
