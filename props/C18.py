"""C18 — priming, renaming, support classification and type hints are exact."""
from ovc import harness, shapes
from ovc import circuit as cc
from ovc.worlds import Shape
from contracts import prime_hints as ph

LEVEL = 'proof'
TRUSTED = [
    'SpecBDD = assumed contract of dd (validated differentially)',
    'A8: int.bit_length and 2**n axioms (documented CPython behaviour); Python integers are mathematical',
    'ovc/denote.py (meaning of hint formulas), ovc/spec.py; z3; CPython executes the re-extracted text',
]
ASSUMPTIONS = [
    'renaming / classification: per declaration shape (finite family), for all predicates; classification is checked for EVERY subset of the shape\'s identifiers as support',
    'width / limit arithmetic: for all integers lo <= hi (unbounded); that bit vectors decode onto the closed range is proved per concrete width 1..31 (the widths the translator accepts)',
    'hint formulas embed numerals in strings: proved per hint in a window (quick -5..5, thorough -17..17), for all predicates',
    'Context.let / _refine_renaming / Context.support are executed in-line (their own contracts: C07)',
]
EXPLANATION = (
    'prime/unprime/replace_with_primed/unprimed/rename_variables are run on uninterpreted predicates and proved equal to the substitution '
    'they document; the support classifiers are checked against the declaration for every possible support; dom_to_width and _bitfield_limits '
    'are run on SYMBOLIC integers and proved correct for all hints; hint formulas and implies_type_hints are proved exact per hint for all predicates.')
LEVEL_TEXT = ('Deductive proof: renaming per shape for all predicates; classification complete per shape; width/limit arithmetic for all integers; '
              'decode bijection per width 1..31; hint formulas per hint in a window.')
DESIGN_REF = 'DESIGN.md section 3, C18'
LEVEL_NOTE = 'Trusted: SpecBDD, z3, bit_length / 2**n axioms, denotation. Bounded parameters: declaration shape; hint window for string-built formulas.'
TECHNIQUE = 'contracts on the real functions: native symbolic execution over a z3-backed manager and symbolic integers; VCs discharged by z3'

RENAME_SHAPE = Shape(env=dict(x=(0, 2), x2=(0, 2)), sys=dict(y='bool', y2='bool'),
                     const=dict(c='bool'))


def _w(name, h, sh, params=None, kind='automaton'):
    def run():
        return harness.verify(h, sh, params or {}, kind=kind)
    return dict(name=f'{name} {sh.name}', run=run, label='per-shape')


def families(tier, seed):
    from contracts import context_ops as co
    from ovc.worlds import Shape as _Shape
    out = list()
    for sh in shapes.family(tier, seed):
        out.append(_w('prime/unprime', ph.h_prime_unprime, sh))
        out.append(_w('prime/unprime of variables declared after an earlier call', ph.h_prime_after_declare, sh))
        out.append(_w('replace_with_primed/unprimed', ph.h_replace_with, sh))
        out.append(_w('support classification', ph.h_support, sh))
    out.append(_w('rename_variables', ph.h_rename_variables, RENAME_SHAPE,
                  dict(pairs=[('x', 'x2'), ('y', 'y2'), ('x2', 'x')])))
    out.append(dict(name='dom_to_width / _bitfield_limits on symbolic hints',
                    run=lambda: cc.verify_circuit(ph.h_width_limits), label='unbounded'))
    for n in range(1, 32):
        for conv in ('signed', 'nonneg', 'neg'):
            if conv == 'signed' and n < 2:
                continue
            out.append(dict(name=f'decode range width={n} {conv}',
                            run=(lambda n=n, conv=conv: cc.verify_circuit(ph.h_decode_range(n, conv))),
                            label='unbounded'))
    lim = 5 if tier == 'quick' else 17
    for lo in range(-lim, lim + 1):
        for hi in range(lo, lim + 1):
            sh = Shape(sys=dict(x=(lo, hi), b='bool'), const=dict(k=(0, 2)),
                       name=f'x:{lo}..{hi} constant k:0..2')
            out.append(_w('hint formulas / implies_type_hints', ph.h_hint_formulas, sh,
                          dict(hint=(lo, hi))))
    for hint0, hint1 in (((-3, -3), (-2, 1)), ((0, 3), (0, 1))):
        shl = _Shape(sys=dict(a=hint0), name=f'a:{hint0}, then a_0:{hint1} declared separately')
        out.append(dict(name=f'support with an identifier named like a bit [{shl.name}]',
                        run=(lambda shl=shl, hint1=hint1: harness.verify(co.h_support_lookalike_int, shl, dict(hint=hint1), kind='context')), label='per-shape'))
    from contracts import context_ops as _co
    for be in ('cudd', 'autoref'):
        out.append(dict(name=f'renaming, priming and enumeration on variables of 11 and 12 bits [{be}]', run=_co.wide_enumeration(be), label='bounded'))
    from contracts import optdiff as _od
    out.append(dict(name='same results with assert statements stripped (python -O), section C18', run=_od.family('C18'), label='bounded'))
    return out


def coverage_extra(results):
    return dict(bounded_parameters=dict(
        declaration_shape='finite family (renaming, classification)',
        hint_window='-5..5 quick, -17..17 thorough (string-built formulas only); width/limit arithmetic unbounded',
        widths='decode bijection: every width 1..31'))
