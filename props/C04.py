"""C04 — Rabin(1) region (nested fixpoint) and duality of CPre."""
from ovc import harness, shapes
from contracts import gr1_monitor as gm
from contracts import gr1_rabin as cr
from contracts import gr1_duality as gd

LEVEL = 'proof'
TRUSTED = [
    'SpecBDD = assumed contract of dd (validated differentially, not proved)',
    'CPython executes the re-extracted function text (only rewrite: loop cuts); z3 soundness',
    'theorem T2 (dual of Kesten-Piterman-Pnueli): the Rabin(1) nested fixpoint over an exact, monotone CPre is the winning region -- CITED, NOT PROVED',
    'complementarity of the Streett region and the dual Rabin region: PROVED per shape as a lemma over the two solver contracts and CPre duality (contracts/gr1_duality.py: ghost fixpoint sets, explicit schema instances, all three levels); no omega code runs in that lemma',
    'Knaster-Tarski for the ghost fixpoint sets; spec functions; explicit-state evaluator (replay only)',
]
ASSUMPTIONS = [
    'partial correctness only',
    'A7 declaration-shape uniformity; (#holds,#goals) enumerated',
    'callees by contract: fixpoint.step, _attractor_inside, _cycle_inside',
    'complementarity of the Streett and Rabin regions follows from: C01 contract, this contract, CPre duality (proved on the real step) and the duality lemma (proved over the contracts, per shape)',
]
EXPLANATION = (
    'solve_rabin_game, _cycle_inside and _attractor_inside are re-extracted with loops cut at invariants and callees stubbed by contract; '
    'each level is proved to be the least / greatest fixpoint of its operator for all actions and liveness predicates. The one-step duality '
    '~CPre(~Q) == CPre of the dual game is proved on the real fixpoint.step for every mode.')
LEVEL_TEXT = ('Deductive proof per shape/mode/(#holds,#goals), all actions and liveness predicates: zk[-1] equals the Rabin(1) nested fixpoint; '
              'CPre duality on the real step. Complementarity of the two regions is proved as a lemma over the two contracts. Fixpoint<=>winning region (T2) is cited.')
DESIGN_REF = 'DESIGN.md section 3, C04'
LEVEL_NOTE = 'Trusted: SpecBDD, z3, Knaster-Tarski, T2. Bounded parameters: shape, liveness counts.'
TECHNIQUE = 'contracts + inductive invariants on the real Rabin solver loops, ghost fixpoints with explicit schema instances, z3'


def _mk(fname, sh, moore, plus_one, nh, ng):
    h = cr.FUNCTIONS[fname]
    params = dict(moore=moore, plus_one=plus_one, n_holds=nh, n_goals=ng,
                  stale_primed_lists=(fname == 'solve_rabin_game'))

    def run():
        return harness.verify(h, sh, params)
    return dict(name=f'{fname} holds={nh} goals={ng} {shapes.mode_name(moore, plus_one)} {sh.name}',
                run=run, label='per-shape')


def _counts_for(sh, counts):
    """Numbers of liveness predicates by size of the shape: the expansion of a
    nested fixpoint obligation grows with 2^(state bits) x #holds x #goals; the
    budget keeps every family below a few minutes on a loaded machine."""
    nb = shapes.n_state_bits(sh)
    if nb <= 3:
        return list(counts)
    if nb == 4:
        return [c for c in counts if c[0] * c[1] <= 4]
    return [c for c in counts if c[0] * c[1] <= 2]


def families(tier, seed):
    out = list()
    counts_all = [(1, 1), (2, 1), (1, 2), (2, 2)]
    if tier == 'thorough':
        counts_all += [(3, 1), (1, 3), (3, 2), (2, 3), (3, 3)]
    for sh in shapes.family(tier, seed):
        counts = _counts_for(sh, counts_all)
        for moore, plus_one in shapes.MODES:
            out.append(_mk('cpre_duality', sh, moore, plus_one, 1, 1))
            out.append(_mk('_attractor_inside', sh, moore, plus_one, 1, 1))
            for ng in sorted({c[1] for c in counts}):
                out.append(_mk('_cycle_inside', sh, moore, plus_one, 1, ng))
            for nh, ng in counts:
                out.append(_mk('solve_rabin_game', sh, moore, plus_one, nh, ng))
                params = dict(moore=moore, plus_one=plus_one, n_holds=nh, n_goals=ng)
                out.append(dict(name=f'duality lemma holds={nh} goals={ng} {shapes.mode_name(moore, plus_one)} {sh.name}',
                                run=(lambda sh=sh, params=params: harness.verify(gd.h_duality, sh, params)), label='per-shape'))
    ns = 4 if tier == 'quick' else 40
    for be in (None, 'autoref'):
        for sh in (shapes.QUICK[2], shapes.QUICK[1], shapes.QUICK[4]):
            for moore, plus_one in shapes.MODES:
                for fname, nh, ng in (('solve_rabin_game', 2, 2), ('_cycle_inside', 1, 2), ('_attractor_inside', 1, 1)):
                    params = dict(moore=moore, plus_one=plus_one, n_holds=nh, n_goals=ng)
                    out.append(dict(
                        name=f'real manager sweep [{be or "default"}] {fname} holds={nh} goals={ng} {shapes.mode_name(moore, plus_one)} {sh.name}',
                        run=harness.sweep(cr.FUNCTIONS[fname], sh, params, 'automaton', seed, ns, be), label='bounded'))
    for be in ('cudd', 'autoref'):
        out.append(dict(name=f'chain games: persistence sets take turns over several outer iterations [{be}]', run=gm.chain_games(be), label='bounded'))
    for be in ('cudd', 'autoref'):
        out.append(dict(name=f'same automaton object solved again after its game was replaced [{be}]',
                        run=gm.resolve_same_automaton('rabin', seed, 60 if tier == 'quick' else 400, be), label='bounded'))
    from contracts import optdiff as _od
    out.append(dict(name='same results with assert statements stripped (python -O), section C01', run=_od.family('C01'), label='bounded'))
    return out


def coverage_extra(results):
    return dict(bounded_parameters=dict(
        declaration_shape='finite family; data symbolic',
        n_liveness='(#holds,#goals) in {1,2}^2 quick, {1,2,3}^2 thorough (shapes with 4 state bits: product <= 4; 5 bits: product <= 2)', modes='all 4'))
