"""C09 — the computed cover is a minimum-cardinality cover by prime boxes"""
from ovc import harness
from ovc.worlds import Shape
from contracts import cover_c as cc_

LEVEL = 'exploration'
TRUSTED = [
    'explicit reference in contracts/cover_c.py (class Ref): boxes, maximal boxes and minimum covers enumerated in plain Python over the bit-range grid (specification)',
    'Context.assign_from / pick_iter / let / add_expr are used to build inputs and read results on the real manager (C06, C07)',
]
ASSUMPTIONS = [
    'BOUNDED ONLY: no function-level contract within reach expresses "no smaller cover exists" (it is the covering theory of spec/mincover); the postcondition of cover.minimize is evaluated on exhaustive / sampled small instances against explicit enumeration of all covers by maximal boxes',
    'the expressible clauses (elements are primes, the cover covers) rest on lattice predicates proved under C08',
]
EXPLANATION = (
    'cover.minimize is run on every instance of the families and its result compared with an explicit reference: every returned box is maximal inside (f or not care), '
    'f is covered, and the size equals the minimum over all subsets of maximal boxes.')
LEVEL_TEXT = 'Bounded check of the postcondition (exhaustive on the small grids, sampled on larger ones); nothing is counted as proved.'
DESIGN_REF = 'DESIGN.md section 3, C09'
LEVEL_NOTE = 'Trusted: explicit reference enumeration. Bounded in the instance family.'
TECHNIQUE = 'bounded run-time contract evaluation against explicit enumeration (stand-in: no deductive contract expresses minimality)'

WHAT = 'C09'
GRIDS_QUICK = [
    (dict(x=(0, 1), y=(0, 1)), 'all-care-hint', 0),
    (dict(x=(0, 1), y=(0, 1), z=(0, 1)), 'all-care-hint', 0),
    (dict(x=(0, 2), y=(0, 2)), 'all-care-hint', 70),
    (dict(x=(0, 3), y=(-2, 1)), 'random-care', 40),
    (dict(x=(-4, -1), y=(0, 1), z=(0, 1)), 'random-care', 30),
    # type hints narrower than the bit ranges, predicates that cover the whole care set included
    (dict(x=(0, 2), y=(-2, 1)), 'hint-narrow', 36),
    (dict(x=(-3, 1)), 'hint-narrow', 27),
    (dict(x=(0, 1), y=(0, 1), z=(0, 1), w=(0, 1)), 'all-but-two', 0),
]
GRIDS_THOROUGH = [
    (dict(x=(0, 1), y=(0, 1), z=(0, 1), w=(0, 1)), 'all-care-hint', 3000),
    (dict(x=(0, 2), y=(0, 2)), 'all-care-hint', 0),
    (dict(x=(0, 3), y=(-2, 1)), 'random-care', 600),
    (dict(x=(0, 3), y=(0, 3), z=(0, 1)), 'random-care', 300),
]


B5 = dict(x=(0, 1), y=(0, 1), z=(0, 1), w=(0, 1), v=(0, 1))
B6 = dict(x=(0, 1), y=(0, 1), z=(0, 1), w=(0, 1), v=(0, 1), u=(0, 1))
G44 = dict(x=(0, 3), y=(0, 3), z=(0, 1))


def families(tier, seed):
    out = list()
    # sampled larger instances with a non-empty cyclic core (the branch and bound runs)
    if WHAT == 'C09':
        cyc = [(B5, 320, 16), (B6, 96, 16), (G44, 64, 8)] if tier == 'quick' else [(B5, 2400, 32), (B6, 960, 32), (G44, 480, 16)]
        for decl, n, parts in cyc:
            for part in range(parts):
                out.append(dict(name=f'{WHAT} bounded cyclic cores {sorted(decl)} n={n} part {part}/{parts}',
                                run=_part(decl, 'cyclic-core', seed, n, 'cudd', part, parts), label='bounded'))

    grids = GRIDS_QUICK + (GRIDS_THOROUGH if tier == 'thorough' else [])
    for gi, (decl, mode, n) in enumerate(grids):
        for be in ('cudd',) + (('autoref',) if gi < 2 else ()):
            # split large families
            parts = 1 if (n and n <= 80 and mode != 'all-but-two') or len(decl) <= 2 else 8
            for part in range(parts):
                out.append(dict(name=f'{WHAT} bounded {decl} {mode} n={n or "all"} [{be}] part {part}/{parts}',
                                run=_part(decl, mode, seed, n, be, part, parts), label='bounded'))
    from contracts import optdiff as _od
    out.append(dict(name='same results with assert statements stripped (python -O), section C08', run=_od.family('C08'), label='bounded'))
    return out


def _part(decl, mode, seed, n, be, part, parts):
    if mode == 'cyclic-core':
        # independently seeded parts (generation is the costly step)
        return cc_.cover_check(decl, mode, seed * 1000 + part, max(1, n // parts), be, WHAT)

    def run():
        ref, insts = cc_.instances(decl, mode, seed, n)
        sel = insts[part::parts]
        orig = cc_.instances
        try:
            cc_.instances = lambda *a, **k: (ref, sel)
            return cc_.cover_check(decl, mode, seed, n, be, WHAT)()
        finally:
            cc_.instances = orig
    return run


def coverage_extra(results):
    return dict(bounded_parameters=dict(instances='exhaustive: all subsets of the 2x2 and 2x2x2 hinted grids; sampled: 3x3 grid, 4x4 and mixed-sign grids with random care sets; sampled instances with a non-empty cyclic core over 5 and 6 two-valued variables and a 4x4x2 grid (320/96/64 quick, 2400/960/480 thorough; VERIF_SEED; PYTHONHASHSEED fixed to 0 by bin/ovc)'))
