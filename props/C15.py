"""C15 — past -> future translation: testers track the past operators."""
from ovc import circuit as cc
from contracts import past_nodes as pn

LEVEL = 'proof'
TRUSTED = [
    'anchored past-LTL semantics: recursive characterisation proved equivalent to the quantified definition (semantics lemmas); ovc/traces.py is specification',
    'PLY-generated parser for the strings omega emits (A5); z3 soundness; CPython executes the re-extracted text',
    'prophecy (until) testers: that every solution satisfying the win condition infinitely often equals the until-semantics is ASSUMED (liveness half); only the expansion law is proved',
]
ASSUMPTIONS = [
    'operands of a node are abstracted by the induction hypothesis (arbitrary traces Int -> Bool): unbounded trace length, unbounded nesting depth',
    'identifiers of the user formula do not collide with generated names (_auxN, <var>_prevN)',
    'end-to-end runs of past.translate on a fixed formula list are BOUNDED in the trace length (all traces of that length)',
]
EXPLANATION = (
    'For each node class of omega.logic.past the real flatten function is run on stub operands; the init/trans strings of the tester it adds '
    'are parsed by the real parser and proved (i) functional: exactly one value at position 0 and exactly one next value, hence exactly one '
    'solution along any sequence, (ii) equal to the anchored semantics by induction over positions, (iii) frame: existing testers untouched, '
    'for every well-formed pre-state of the tester dictionary. past.translate is additionally checked end-to-end on all traces up to a length bound.')
LEVEL_TEXT = ('Deductive proof per node class for all traces of any length and all operand formulas (induction over positions and over the syntax tree); '
              'bounded end-to-end cross-check of translate().')
DESIGN_REF = 'DESIGN.md section 3, C15'
LEVEL_NOTE = 'Trusted: trace semantics spec, parser, z3; until-tester liveness half assumed. Bounded part: end-to-end trace length.'
TECHNIQUE = 'tester contracts (functional init/trans + induction over trace positions) on the real flatten functions, discharged by z3'


def _c(name, h):
    return dict(name=name, run=lambda: cc.verify_circuit(h), label='unbounded')


def families(tier, seed):
    out = [_c('semantics lemmas', pn.h_semantics_lemmas())]
    for pre in pn.PRE_STATES:
        out.append(_c(f'_flatten_since pre={pre}', pn.h_since(pre)))
        for strong in (False, True):
            out.append(_c(f'_flatten_previous expr strong={strong} pre={pre}', pn.h_previous_expr(strong, pre)))
        for op in ('-[]', '-<>'):
            out.append(_c(f'Unary {op} pre={pre}', pn.h_hist_once(op, pre)))
    # the `until` mode flag must not change the translation of PAST operators
    out.append(_c('_flatten_since (until=True)', pn.h_since('other', until=True)))
    for op in ('-[]', '-<>'):
        out.append(_c(f'Unary {op} (until=True)', pn.h_hist_once(op, 'other', until=True)))
    for strong in (False, True):
        out.append(_c(f'_flatten_previous expr strong={strong} (until=True)', pn.h_previous_expr(strong, 'empty', until=True)))
        for const in ('true', 'True', 'false', 'False'):
            out.append(_c(f'previous of constant strong={strong} {const}', pn.h_previous_const(strong, const)))
    for strong in (False, True):
        for pk in ('absent', 'weak', 'strong'):
            out.append(_c(f'previous of variable strong={strong} pre-state={pk}', pn.h_previous_var(strong, pk)))
        for const in ('TRUE', 'FALSE'):
            out.append(_c(f'previous of constant strong={strong} {const}', pn.h_previous_const(strong, const)))
    for kind in ('U', '<>', '[]'):
        out.append(_c(f'until-tester {kind}', pn.h_until(kind)))
    out.append(_c('pass-through connectives', pn.h_passthrough()))
    for left, right in (('TRUE', None), ('FALSE', None), (None, 'TRUE'), (None, 'FALSE'),
                        ('TRUE', 'FALSE'), ('FALSE', 'TRUE')):
        out.append(_c(f'_flatten_since constant operands {left} S {right}', pn.h_since_const(left, right)))
    Lg = 4 if tier == 'quick' else 6
    gen = pn.generated_formulas(tier)
    chunk = 40
    for i in range(0, len(gen), chunk):
        part = gen[i:i + chunk]

        def run(part=part):
            acc = None
            for fml in part:
                r = pn.h_translate_e2e(fml, Lg)()
                if acc is None:
                    acc = r
                    acc['bounded']['formula'] = f'{len(part)} generated formulas, first: {part[0]}'
                else:
                    acc['bounded']['evaluations'] += r['bounded']['evaluations']
                    acc['bounded']['failures'] += r['bounded']['failures']
            return acc
        out.append(dict(name=f'translate e2e L={Lg} generated formulas {i}..{i + len(part) - 1}', run=run, label='bounded'))
    L = 5 if tier == 'quick' else 9
    for fml in pn.E2E:
        out.append(dict(name=f'translate e2e L={L} {fml}', run=pn.h_translate_e2e(fml, L), label='bounded'))
    out.append(dict(name='syntax.conj / syntax.disj with constant operands', run=pn.h_conj_disj(), label='bounded'))
    for fml in pn.E2E_MIXED:
        out.append(dict(name=f'translate mixed past/future (until=True) L={L} {fml}', run=pn.h_translate_mixed(fml, min(L, 6)), label='bounded'))
    for fml in pn.E2E_NEXT:
        out.append(dict(name=f'translate e2e (next-state operands) L={L} {fml}', run=pn.h_translate_e2e(fml, L), label='bounded'))
    for fml in pn.E2E_UNTIL:
        out.append(dict(name=f'translate e2e (until=True) L={L} {fml}', run=pn.h_translate_e2e(fml, L, until=True), label='bounded'))
    for until, fmls in ((True, pn.E2E_MIXED), (True, pn.E2E_UNTIL), (False, pn.E2E[::3])):
        for fml in fmls:
            out.append(dict(name=f'translate: debug=True only reorders (until={until}) {fml}', run=pn.h_debug_same(fml, until), label='bounded'))
    # the other entry points (debug=True, map_translate with a repeated formula, a tree flattened twice)
    k = 0
    for until, fmls in ((False, pn.E2E), (True, pn.E2E_UNTIL), (False, pn.E2E_NEXT)):
        for fml in fmls:
            k += 1
            entry = pn.ENTRIES[1 + k % 3]
            out.append(dict(name=f'translate e2e via {entry}{" (until=True)" if until else ""} L={L} {fml}',
                            run=pn.h_translate_e2e(fml, L, until=until, entry=entry), label='bounded'))
    from contracts import optdiff as _od
    out.append(dict(name='same results with assert statements stripped (python -O), section C15', run=_od.family('C15'), label='bounded'))
    return out


def coverage_extra(results):
    return dict(bounded_parameters=dict(
        trace_length='node-level proofs: unbounded; end-to-end: 5 / 4 generated (quick), 9 / 6 generated (thorough)',
        formulas='node-level: all (structural induction); end-to-end: fixed list'))
