"""C07 — Context operations on BDDs equal the same operations on sets of assignments."""
from ovc import harness
from ovc.worlds import Shape
from contracts import context_ops as co

LEVEL = 'other'
TRUSTED = [
    'SpecBDD (assumed dd contract); z3; CPython executes the re-extracted text',
    'independent two\'s complement encoding of values (contracts/context_ops.py _enc) and representable ranges (ovc/denote.py limits)',
]
ASSUMPTIONS = [
    'proved part: per declaration shape, for all predicates: exist, forall, let (every representable value of every variable; renaming of same-typed variables), replace_with_bdd, assign_from, apply, support',
    'BOUNDED part (not proved): count, pick, pick_iter and enumeration._bitfields_to_int_iter/_enumerate_int/_take_product_iter are generators over digit/cube data; their contract is evaluated on seeded random predicates over the small contexts on both dd back ends, and on every partial cube of words up to 4 bits',
    'Context.copy is a one-line wrapper of dd copy (dependency)',
]
EXPLANATION = (
    'Context.exist/forall/let/replace_with_bdd/assign_from/apply/support are re-extracted and run on uninterpreted predicates over a z3-backed manager and proved '
    'equal to the corresponding operation on sets of integer/Boolean assignments (values encoded independently in two\'s complement). Enumeration methods are '
    'checked by a bounded run-time evaluation of their contract: every satisfying assignment over support + care_vars exactly once, count = number yielded.')
LEVEL_TEXT = 'Deductive proof per shape for the algebraic operations (all predicates); bounded contract evaluation for count/pick/pick_iter (never counted as proved).'
DESIGN_REF = 'DESIGN.md section 3, C07'
LEVEL_NOTE = 'Trusted: SpecBDD, z3. Bounded: enumeration methods (seeded predicates, both back ends), declaration shapes.'
TECHNIQUE = 'contracts on real Context methods verified by native symbolic execution + z3; bounded run-time contract evaluation for generators'


MULTI = [{'x': 'x2', 'x2': 'x'}, {'b': 'b2', 'b2': 'b'}, {'x': 'x2', 'x2': 'x', 'b': 'b2', 'b2': 'b'}, {'x2': 'x', 'b': 'b2'}]


def _w(name, h, sh, params=None):
    def run():
        return harness.verify(h, sh, params or {}, kind='context')
    return dict(name=f'{name} [{sh.name}]', run=run, label='per-shape')


def families(tier, seed):
    out = list()
    for cname, decl in co.CONTEXTS.items():
        sh = Shape(sys=decl, name=cname)
        out.append(_w('exist/forall', co.h_quantify, sh))
        out.append(_w('let(values)', co.h_let_values, sh))
        out.append(_w('assign_from/apply', co.h_assign_apply, sh))
        out.append(_w('support', co.h_support, sh))
        out.append(_w('support (later identifiers through add_vars)', co.h_support, sh, dict(late='add_vars')))
    shw = Shape(sys=co.SAME_WIDTH, name='same-width')
    out.append(_w('let(rename) between different hints', co.h_rename_replace, shw,
                  dict(pairs=[('p', 'r')], bool='b', hint_mismatch=[('p', 'q'), ('q', 'p'), ('q', 'r')])))
    for hint0, hint1 in (((-3, -3), (-2, 1)), ((0, 3), (0, 1)), ((-2, 1), (0, 5))):
        shl = Shape(sys=dict(a=hint0), name=f'a:{hint0}, then a_0:{hint1} declared separately')
        out.append(_w('support/exist with an identifier named like a bit', co.h_support_lookalike_int, shl, dict(hint=hint1)))
    sh = Shape(sys=co.CONTEXTS['twins'], name='twins')
    out.append(_w('let(rename)/replace_with_bdd', co.h_rename_replace, sh,
                  dict(pairs=[('x', 'x2'), ('x2', 'x'), ('b', 'b2')], bool='b', mismatch=('x', 'b'), multi=MULTI)))
    ns = 6 if tier == 'quick' else 60
    for be in (None, 'autoref'):
        for cname, decl in co.CONTEXTS.items():
            shc = Shape(sys=decl, name=cname)
            for hn, h in (('exist/forall', co.h_quantify), ('let(values)', co.h_let_values),
                          ('assign_from/apply', co.h_assign_apply)):
                out.append(dict(name=f'real manager sweep [{be or "default"}] {hn} [{cname}]',
                                run=harness.sweep(h, shc, {}, 'context', seed, ns, be), label='bounded'))
        out.append(dict(name=f'real manager sweep [{be or "default"}] let(rename)/replace_with_bdd [twins]',
                        run=harness.sweep(co.h_rename_replace, sh, dict(pairs=[('x', 'x2'), ('x2', 'x'), ('b', 'b2')], bool='b', multi=MULTI),
                                          'context', seed, 4 * ns, be), label='bounded'))
    n = 40 if tier == 'quick' else 400
    for cname in co.CONTEXTS:
        for be in ('cudd', 'autoref'):
            out.append(dict(name=f'enumeration contract [{cname}] [{be}]',
                            run=co.enumeration_check(cname, be, seed, n), label='bounded'))
    out.append(dict(name='partial cubes', run=co.partial_cube_check(4), label='bounded'))
    for be in ('cudd', 'autoref'):
        out.append(dict(name=f'enumeration on variables of 11 and 12 bits [{be}]', run=co.wide_enumeration(be), label='bounded'))
    from contracts import optdiff as _od
    out.append(dict(name='same results with assert statements stripped (python -O), section C07', run=_od.family('C07'), label='bounded'))
    return out


def coverage_extra(results):
    return dict(bounded_parameters=dict(declaration_shape='3 contexts (mixed, all-negative + wide, twins)',
                                        enumeration='seeded random predicates: 40 quick / 400 thorough per context and back end; partial cubes exhaustive to 4 bits'))
