"""C12 — enumerated state machine is an input-complete sub-machine of the symbolic one."""
from ovc import harness, shapes
from contracts import games_enum as ce

LEVEL = 'other'
TRUSTED = [
    'SpecBDD; z3; CPython executes the re-extracted text',
    'explicit graph checker contracts/games_enum.py check_graph (specification) uses Context.let / exist on the real manager to evaluate the symbolic actions at concrete valuations (C07)',
]
ASSUMPTIONS = [
    'PROVED per shape for all predicates: _select_candidate_nodes (non-empty subset of next nodes, prefers visited / new, remain flag), _add_to_visited (every representable valuation), _primed_vars_per_quantifier',
    'BOUNDED: the graph-level postcondition of action_to_steps (one node per valuation; initial nodes per qinit; every edge satisfies both actions; exactly one out-edge per admissible next environment value) on seeded synthesized Streett implementations and hand-made actions, 4 qinit forms, Moore and Mealy',
    'requires: the environment action does not read the component\'s next values; environment initial condition over environment variables',
    '"every path satisfies the liveness the implementation guarantees" is inherited from C02 (sub-machine of the implementation), not re-decided',
]
EXPLANATION = (
    'The helper functions that decide which successor is taken and maintain the visited set are proved for all predicates; the breadth-first search itself '
    '(generators, dict/graph mutation) is checked by evaluating its graph-level contract on concrete implementations produced by the real synthesizer.')
LEVEL_TEXT = 'Proof per shape of the selection / visited-set helpers; bounded run-time evaluation of the graph-level contract.'
DESIGN_REF = 'DESIGN.md section 3, C12'
LEVEL_NOTE = 'Trusted: SpecBDD, z3, explicit graph checker. Bounded: graphs from seeded implementations and hand-made actions.'
TECHNIQUE = 'contracts on helper functions (native symbolic execution + z3) + bounded run-time contract evaluation of the enumerated graph'


def families(tier, seed):
    out = list()
    for sh in shapes.QUICK[:3]:
        for prefer in (True, False):
            def run(sh=sh, prefer=prefer):
                return harness.verify(ce.h_select_candidate, sh, dict(visited=prefer))
            out.append(dict(name=f'_select_candidate_nodes visited={prefer} {sh.name}', run=run, label='per-shape'))

        def run(sh=sh):
            return harness.verify(ce.h_add_to_visited, sh, {})
        out.append(dict(name=f'_add_to_visited {sh.name}', run=run, label='per-shape'))
    n = 200 if tier == 'quick' else 6400
    parts = 4 if tier == 'quick' else 16
    for i in range(parts):
        out.append(dict(name=f'enumerated graphs of synthesized Streett implementations part {i}',
                        run=ce.enumeration_on_implementations('streett', seed * 100 + i, n // parts), label='bounded'))
    out.append(dict(name='enumerated graphs of hand-made actions', run=ce.enumeration_handmade(), label='bounded'))
    from contracts import optdiff as _od
    out.append(dict(name='same results with assert statements stripped (python -O), section C12', run=_od.family('C12'), label='bounded'))
    return out


def coverage_extra(results):
    graphs = sum((r.get('bounded') or {}).get('graphs', 0) for r in results)
    return dict(graphs_checked=graphs, bounded_parameters=dict(declaration_shape='3 shapes (helpers)', graphs='seeded: 200 games quick / 6400 thorough + hand-made actions x 4 qinit x Moore/Mealy, each enumerated twice'))
