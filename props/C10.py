"""C10 — enumeration of minimal covers returns exactly all minimum covers by primes"""
from ovc import harness
from ovc.worlds import Shape
from contracts import cover_c as cc_

LEVEL = 'exploration'
TRUSTED = [
    'explicit reference in contracts/cover_c.py (class Ref): boxes, maximal boxes and minimum covers enumerated in plain Python over the bit-range grid (specification)',
    'Context.assign_from / pick_iter / let / add_expr are used to build inputs and read results on the real manager (C06, C07)',
]
ASSUMPTIONS = [
    'BOUNDED ONLY (as C09): cover_enum.minimize is compared, per instance, with the explicit set of all minimum-cardinality covers by maximal boxes',
]
EXPLANATION = (
    'cover_enum.minimize is run on every instance and the returned set of covers compared with the explicitly enumerated set of all minimum covers.')
LEVEL_TEXT = 'Bounded check of the postcondition; nothing is counted as proved.'
DESIGN_REF = 'DESIGN.md section 3, C10'
LEVEL_NOTE = 'Trusted: explicit reference enumeration. Bounded in the instance family.'
TECHNIQUE = 'bounded run-time contract evaluation against explicit enumeration (stand-in)'

WHAT = 'C10'
GRIDS_QUICK = [
    (dict(x=(0, 1), y=(0, 1)), 'all-care-hint', 0),
    (dict(x=(0, 1), y=(0, 1), z=(0, 1)), 'all-care-hint', 0),
    (dict(x=(0, 2), y=(0, 2)), 'all-care-hint', 70),
    (dict(x=(0, 3), y=(-2, 1)), 'random-care', 40),
    (dict(x=(-4, -1), y=(0, 1), z=(0, 1)), 'random-care', 30),
    # type hints narrower than the bit ranges, predicates that cover the whole care set included
    (dict(x=(0, 2), y=(-2, 1)), 'hint-narrow', 36),
    (dict(x=(-3, 1)), 'hint-narrow', 27),
]
GRIDS_THOROUGH = [
    (dict(x=(0, 1), y=(0, 1), z=(0, 1), w=(0, 1)), 'all-care-hint', 3000),
    (dict(x=(0, 2), y=(0, 2)), 'all-care-hint', 0),
    (dict(x=(0, 3), y=(-2, 1)), 'random-care', 600),
    (dict(x=(0, 3), y=(0, 3), z=(0, 1)), 'random-care', 300),
]


def families(tier, seed):
    out = list()

    # deterministic witness of known finding F2 (independent of VERIF_SEED)
    out.append(dict(name='C10 witness of known finding F2: x:-4..-1, y, z two-valued, random care, fixed seed 0',
                    run=_part(dict(x=(-4, -1), y=(0, 1), z=(0, 1)), 'random-care', 0, 30, 'cudd', 0, 1), label='bounded'))
    # sampled larger instances with a non-empty cyclic core (both branches of the exhaustive search run)
    G333 = dict(x=(0, 2), y=(0, 2), z=(0, 2))
    B5 = dict(x=(0, 1), y=(0, 1), z=(0, 1), w=(0, 1), v=(0, 1))
    cyc = [(G333, 640, 32), (B5, 160, 16)] if tier == 'quick' else [(G333, 6400, 64), (B5, 1600, 32)]
    for decl, n, parts in cyc:
        for part in range(parts):
            out.append(dict(name=f'{WHAT} bounded cyclic cores {decl} n={n} part {part}/{parts}',
                            run=cc_.cover_check(decl, 'cyclic-core', seed * 1000 + part, max(1, n // parts), 'cudd', WHAT), label='bounded'))
    grids = GRIDS_QUICK + (GRIDS_THOROUGH if tier == 'thorough' else [])
    for gi, (decl, mode, n) in enumerate(grids):
        for be in ('cudd',) + (('autoref',) if gi < 2 else ()):
            # split large families
            parts = 1 if (n and n <= 80) or len(decl) <= 2 else 8
            for part in range(parts):
                out.append(dict(name=f'{WHAT} bounded {decl} {mode} n={n or "all"} [{be}] part {part}/{parts}',
                                run=_part(decl, mode, seed, n, be, part, parts), label='bounded'))
    from contracts import optdiff as _od
    out.append(dict(name='same results with assert statements stripped (python -O), section C10', run=_od.family('C10'), label='bounded'))
    return out


def _part(decl, mode, seed, n, be, part, parts):
    def run():
        ref, insts = cc_.instances(decl, mode, seed, n)
        sel = insts[part::parts]
        orig = cc_.instances
        try:
            cc_.instances = lambda *a, **k: (ref, sel)
            return cc_.cover_check(decl, mode, seed, n, be, WHAT)()
        finally:
            cc_.instances = orig
    return run


def coverage_extra(results):
    return dict(bounded_parameters=dict(instances='exhaustive: all subsets of the 2x2 and 2x2x2 hinted grids; sampled: 3x3 grid, 4x4 and mixed-sign grids with random care sets; sampled instances with a non-empty cyclic core on a 4x4x4 grid (hints 0..2) and over 5 two-valued variables (640/160 quick, 6400/1600 thorough), all minimum covers enumerated by an exact reference (VERIF_SEED; PYTHONHASHSEED fixed to 0 by bin/ovc)'))
