"""C01 — Streett(1) winning region (nested fixpoint)."""
from ovc import harness, shapes
from contracts import gr1_monitor as gm
from contracts import gr1_streett as cs

LEVEL = 'proof'
TRUSTED = [
    'SpecBDD = assumed contract of dd (validated differentially, not proved)',
    'CPython executes the re-extracted function text (only rewrite: loop cuts); z3 soundness',
    'theorem T1 (Kesten-Piterman-Pnueli 2005; Bloem et al. 2012 sec. 3): the nested fixpoint over an exact, monotone CPre is the winning region -- CITED, NOT PROVED',
    'existence of least/greatest fixpoints of monotone operators on the finite lattice of state sets (Knaster-Tarski): licenses the ghost fixpoint sets; only their fixpoint equations and explicit instances of their extremal property are asserted (all instances listed per run)',
    'spec functions ovc/spec.py; explicit-state evaluator ovc/explicit.py (concrete replay only)',
]
ASSUMPTIONS = [
    'partial correctness: termination of the three nested loops not proved',
    'A7: uniformity in the declaration shape; numbers of recurrence/persistence predicates enumerated ({1,2}^2 quick, {1,2,3}^2 thorough)',
    'callees by contract: fixpoint.step (exact CPre, C11), fixpoint.trap (greatest fixpoint, C11), _attractor_under_assumptions (least fixpoint of G)',
    'recorded iterate lists yij / xijk: structure and the facts of the last adjacent pair are proved as loop invariants (append-only lists: every adjacent pair by induction on the length, a meta-step); C02 relies on them',
]
EXPLANATION = (
    'solve_streett_game and _attractor_under_assumptions are re-extracted from source with their while-loops cut at inductive '
    'invariants; fixpoint.step / fixpoint.trap / _attractor_under_assumptions are replaced by their contract stubs. The outer result is '
    'proved to be a post-fixed point of Z -> /\\_j LFP_j(Z) that contains every post-fixed point (hence the greatest fixpoint), the middle '
    'result a pre-fixed point of Y -> \\/_k GFP_k(CPre Y \\/ goal) contained in every pre-fixed point (least fixpoint); ghost sets name '
    'the inner fixpoints and the proof script adds explicit instances of their extremal schemas. All actions and liveness predicates are '
    'uninterpreted, iteration counts unbounded.')
LEVEL_TEXT = ('Deductive proof, per declaration shape / mode / (#goals,#holds), for ALL actions and liveness predicates, that the returned set equals the '
              'three-level nested fixpoint over the exact CPre. That this fixpoint is the set of states the component wins from is the cited theorem T1, not proved here.')
DESIGN_REF = 'DESIGN.md section 3, C01'
LEVEL_NOTE = ('Trusted: SpecBDD, z3, Knaster-Tarski for ghost fixpoints, theorem T1 (fixpoint <=> winning region). Bounded parameters: declaration shape, '
              'numbers of liveness predicates. Termination not proved.')
TECHNIQUE = 'contracts + inductive invariants on the real solver loops, ghost fixpoint sets with explicit lemma-schema instances, VCs discharged by z3'


def _mk(fname, sh, moore, plus_one, nh, ng):
    h = cs.FUNCTIONS[fname]
    params = dict(moore=moore, plus_one=plus_one, n_holds=nh, n_goals=ng,
                  stale_primed_lists=(fname == 'solve_streett_game'))

    def run():
        return harness.verify(h, sh, params)
    return dict(name=f'{fname} holds={nh} goals={ng} {shapes.mode_name(moore, plus_one)} {sh.name}',
                run=run, label='per-shape')


def _counts_for(sh, counts):
    """Numbers of liveness predicates by size of the shape: the expansion of a
    nested fixpoint obligation grows with 2^(state bits) x #holds x #goals; the
    budget keeps every family below a few minutes on a loaded machine."""
    nb = shapes.n_state_bits(sh)
    if nb <= 3:
        return list(counts)
    if nb == 4:
        return [c for c in counts if c[0] * c[1] <= 4]
    return [c for c in counts if c[0] * c[1] <= 2]


def families(tier, seed):
    out = list()
    shs = shapes.family(tier, seed)
    counts = [(1, 1), (2, 1), (1, 2), (2, 2)]
    if tier == 'thorough':
        counts += [(3, 1), (1, 3), (3, 2), (2, 3), (3, 3)]
    for sh in shs:
        cnts = _counts_for(sh, counts)
        for moore, plus_one in shapes.MODES:
            for nh in sorted({c[0] for c in cnts}):
                out.append(_mk('_attractor_under_assumptions', sh, moore, plus_one, nh, 1))
            for nh, ng in cnts:
                out.append(_mk('solve_streett_game', sh, moore, plus_one, nh, ng))
    # BOUNDED: the same contract harnesses on the real dd managers (both back ends),
    # postconditions evaluated against the explicit-state reference semantics
    ns = 4 if tier == 'quick' else 40
    for be in (None, 'autoref'):
        for sh in (shapes.QUICK[2], shapes.QUICK[1], shapes.QUICK[4]):
            for moore, plus_one in shapes.MODES:
                for fname, nh, ng in (('solve_streett_game', 2, 2), ('_attractor_under_assumptions', 2, 1)):
                    params = dict(moore=moore, plus_one=plus_one, n_holds=nh, n_goals=ng)
                    out.append(dict(
                        name=f'real manager sweep [{be or "default"}] {fname} holds={nh} goals={ng} {shapes.mode_name(moore, plus_one)} {sh.name}',
                        run=harness.sweep(cs.FUNCTIONS[fname], sh, params, 'automaton', seed, ns, be), label='bounded'))
    for be in ('cudd', 'autoref'):
        out.append(dict(name=f'same automaton object solved again after its game was replaced [{be}]',
                        run=gm.resolve_same_automaton('streett', seed, 60 if tier == 'quick' else 400, be), label='bounded'))
    from contracts import optdiff as _od
    out.append(dict(name='same results with assert statements stripped (python -O), section C01', run=_od.family('C01'), label='bounded'))
    return out


def coverage_extra(results):
    return dict(bounded_parameters=dict(
        declaration_shape='finite family (ovc/shapes.py); actions and liveness predicates symbolic',
        n_liveness='(#holds,#goals) in {1,2}^2 quick, {1,2,3}^2 thorough (shapes with 4 state bits: product <= 4; 5 bits: product <= 2)',
        modes='all 4: complete',
        real_manager_sweeps='4 (quick) / 40 (thorough) random games per mode, shape and back end (dd.cudd, dd.autoref), explicit-state reference'))
